(* RoundTripP.v — property C04, the loop closed inside Coq:

     circuit --write3--> text --read3--> rprogram --ast_of_program--> AST
             --parse_program (OpenSquirrel's parser after libqasm)--> circuit'

   and circuit' is the circuit, statement by statement: same register sizes,
   same instruction names, qubit operands, bit targets and integer parameters,
   real parameters replaced by their 8-significant-digit literal as the parser
   converts it ([of_lit (v3_float dec8 x)]), gates rebuilt by the default table
   from those arguments, comments dropped, object identities 1, 2, 3, ...

   The bridge [ast_of_program] stands for libqasm on the image of the writer
   (libqasm itself is an oracle of the development: Model/ParserExpand.v starts
   from its analysed AST).  It is the smallest one: the two declarations
   "qubit[nq] q" and (when present) "bit[nb] b"; one instruction per line whose
   operands are, in libqasm 0.6.7's order, the qubit operands (one IndexRef
   q[i] per operand) FOLLOWED BY the parameter of the gate (ConstFloat /
   ConstInt) - this is the order in which parser.py passes them on to the
   generator, Rx(q, theta), CR(control, target, theta), CRk(control, target, k),
   and the order the differential test C09 feeds to [parse_program]; a measure
   "b[k] = name q[i]" has the operands (bit, qubit), as the model of
   _get_expanded_measure_args documents; a comment gives nothing (libqasm drops
   comments); a line the reader could not classify ([RRaw]: the text of an
   anonymous gate, an abstract measure or reset) and a version other than 3.0
   are refused by libqasm: [ast_of_program] is [None] there.  The conversion of
   the text of a real literal to a number is the Section variable [of_lit]
   (at T := Q or R it is [signed_literal_value]; with IEEE doubles it is
   strtod).  It is a Section variable, not an axiom: every theorem holds for
   every conversion.

   Everything is proved for ANY T and ANY N : Num T, except part 7 (the
   operation, over R).  Added hypotheses, all necessary:
     - [rt_coherent]: every statement is what the default instruction set
       builds from its name and captured arguments (for gates this is
       [named_from_table] of PassesP.v, the invariant of C05; for a measure /
       reset the name is in the default set, the arguments are (q, b) / (q)
       and agree with the semantic fields, the measure axis is the default
       one).  The parser can only produce such statements
       ([parse_program_rt_coherent]).
     - [bits_declared]: a circuit with a measure has a bit register.  The
       writer omits the declaration of an empty bit register, and then
       "b[0] = measure q[0]" refers to an undeclared variable
       ([parse_read_write_no_bits_refuted]).
   Not modelled (libqasm's own checks, an oracle here): index ranges, the
   refusal of "qubit[0] q", and the fact that libqasm 0.6.7 has no instruction
   "measure_z" (the model's parser knows it, libqasm refuses it before). *)
From Coq Require Import ZArith List Bool String Ascii Lia.
Import ListNotations.
From OSQ Require Import Num IR Construct Dec Writer DefaultTable ParserExpand Reader Lexer.
From OSQ Require Import DecP WriterP ReaderP ParserP RemapP PassesP.
Local Open Scope string_scope.

(* ------------------------------------------------------------------ *)
(** * 0. The default table: shapes of the parameter lists               *)
(* ------------------------------------------------------------------ *)

Fixpoint lits_only (ps : list (string * pkind)) : bool :=
  match ps with
  | [] => true
  | (_, KF) :: r => lits_only r
  | (_, KI) :: r => lits_only r
  | _ => false
  end.

(* qubits first, then floats / integers: every default gate has this signature *)
Fixpoint q_then_lits (ps : list (string * pkind)) : bool :=
  match ps with
  | (_, KQ) :: r => q_then_lits r
  | _ => lits_only ps
  end.

Lemma table_shapes :
  forallb (fun e => q_then_lits (e_params e) && mem_str (e_name e) hand_gate_set &&
                    negb (contains "measure" (e_name e)) && negb (contains "reset" (e_name e)))
          hand_table = true.
Proof. vm_compute. reflexivity. Qed.

Lemma find_entry_In' name tbl e : find_entry name tbl = Some e -> In e tbl /\ e_name e = name.
Proof.
  induction tbl as [|e' tbl IH]; cbn [find_entry]; [discriminate|].
  destruct (String.eqb_spec (e_name e') name) as [E|_].
  - intros H; inversion H; subst. split; [now left|reflexivity].
  - intros H. destruct (IH H) as [Hi Hn]. split; [now right|exact Hn].
Qed.

Lemma table_entry name e : find_entry name hand_table = Some e ->
  e_name e = name /\ q_then_lits (e_params e) = true /\ mem_str name hand_gate_set = true /\
  contains "measure" name = false /\ contains "reset" name = false.
Proof.
  intros H. destruct (find_entry_In' _ _ _ H) as [Hi Hn].
  pose proof table_shapes as HS. rewrite forallb_forall in HS. specialize (HS e Hi).
  rewrite !andb_true_iff, !negb_true_iff, Hn in HS. tauto.
Qed.

(* ------------------------------------------------------------------ *)
(** * 1. The bridge and the expected result                              *)
(* ------------------------------------------------------------------ *)

Section RoundTrip.
  Context {T : Type} (N : Num T).
  Variable dec8 : T -> dec.
  Variable anon_text : gate T -> string.
  Variable of_lit : string -> T.

  Notation stmt := (stmt T).
  Notation arg := (arg T).
  Notation operand := (operand T).

  (** ** 1.1 libqasm on the image of the writer *)

  Definition rt_vars (nq nb : Z) : list avar :=
    mkVar "q" VQubit nq :: (if Z.ltb 0 nb then [mkVar "b" VBit nb] else []).

  Definition qop (q : Z) : operand := OIndex "q" [q].
  Definition bop (b : Z) : operand := OIndex "b" [b].

  Definition op_of_rarg (a : rarg) : operand :=
    match a with
    | RQ q => qop q
    | RB b => bop b
    | RNumLit l => OFloat (of_lit l)
    | RInt k => OInt k
    end.

  (* None = libqasm refuses the line *)
  Definition ast_of_line (l : rline) : option (list (astmt T)) :=
    match l with
    | RGate name params qubits => Some [mkAstmt name (map qop qubits ++ map op_of_rarg params)%list]
    | RAssign b name q => Some [mkAstmt name [bop b; qop q]]
    | RComment _ => Some []
    | RRaw _ => None
    end.

  Fixpoint ast_of_lines (ls : list rline) : option (list (astmt T)) :=
    match ls with
    | [] => Some []
    | l :: r =>
        match ast_of_line l, ast_of_lines r with
        | Some a, Some b => Some (a ++ b)%list
        | _, _ => None
        end
    end.

  Definition ast_of_program (p : rprogram) : option (list avar * list (astmt T)) :=
    if String.eqb (r_version p) "3.0" then
      match ast_of_lines (r_lines p) with
      | Some sts => Some (rt_vars (r_nq p) (r_nb p), sts)
      | None => None
      end
    else None.

  (** ** 1.2 What the circuit becomes *)

  (* x rounded to 8 significant digits, as the parser sees it *)
  Definition round_real (x : T) : T := of_lit (v3_float dec8 x).
  Definition round_arg (a : arg) : arg := match a with AF x => AF (round_real x) | _ => a end.

  (* the gate rebuilt by the default table from the rounded arguments; measures,
     resets (no real argument) as they are *)
  Definition rebuild (s : stmt) : stmt :=
    match s with
    | SGate o g gi =>
        match gname gi, gargs gi with
        | Some n, Some args =>
            match default_gate N n (map round_arg args) with
            | Ok (g', gi') => SGate o g' gi'
            | Err _ => s
            end
        | _, _ => s
        end
    | _ => s
    end.

  Definition is_comment (s : stmt) : bool := match s with SComment _ => true | _ => false end.
  Definition strip_comments (ir : list stmt) : list stmt := filter (fun s => negb (is_comment s)) ir.

  (* object identities *)
  Definition set_oid (o : positive) (s : stmt) : stmt :=
    match s with
    | SGate _ g gi => SGate o g gi
    | SMeasure _ q b ax gi => SMeasure o q b ax gi
    | SReset _ q gi => SReset o q gi
    | SComment t => SComment t
    end.

  Fixpoint renumber (o : positive) (l : list stmt) : list stmt :=
    match l with
    | [] => []
    | s :: r => set_oid o s :: renumber (Pos.succ o) r
    end.

  Definition forget_oid (s : stmt) : stmt := set_oid 1%positive s.
  Definition forget_oids (l : list stmt) : list stmt := map forget_oid l.
  Definition same_modulo_oid (a b : list stmt) : Prop := forget_oids a = forget_oids b.

  Lemma forget_set_oid o s : forget_oid (set_oid o s) = forget_oid s.
  Proof. destruct s; reflexivity. Qed.

  Lemma forget_renumber l : forall o, forget_oids (renumber o l) = forget_oids l.
  Proof.
    induction l as [|s r IH]; intros o; [reflexivity|].
    cbn [renumber forget_oids map]. rewrite forget_set_oid. f_equal. apply IH.
  Qed.

  Lemma renumber_length l : forall o, List.length (renumber o l) = List.length l.
  Proof. induction l as [|s r IH]; intros o; cbn [renumber List.length]; [reflexivity|now rewrite IH]. Qed.

  Lemma renumber_nth l : forall o i s, nth_error l i = Some s ->
    exists o', nth_error (renumber o l) i = Some (set_oid o' s).
  Proof.
    induction l as [|x r IH]; intros o [|i] s H; cbn in H; try discriminate.
    - injection H as <-. exists o. reflexivity.
    - cbn [renumber nth_error]. now apply IH.
  Qed.

  (** ** 1.3 The hypotheses *)

  (* every statement is what the default instruction set builds from its name
     and captured arguments *)
  Definition rt_coherent (s : stmt) : Prop :=
    match s with
    | SGate _ g gi =>
        exists n args, gname gi = Some n /\ gargs gi = Some args /\ default_gate N n args = Ok (g, gi)
    | SMeasure _ q b ax gi =>
        exists n, mem_str n hand_measure_set = true /\
                  gi = mkGinfo (Some n) (Some [AQ q; AB b]) /\
                  ax = Construct.mk_axis N (nofZ N 0, nofZ N 0, nofZ N 1)
    | SReset _ q gi => gi = mkGinfo (Some "reset") (Some [AQ q])
    | SComment _ => True
    end.

  (* a measure needs a declared bit register *)
  Definition needs_bits (nb : Z) (s : stmt) : Prop :=
    match s with SMeasure _ _ _ _ _ => (0 < nb)%Z | _ => True end.
  Definition bits_declared (nb : Z) (ir : list stmt) : Prop := Forall (needs_bits nb) ir.

  (* for a named gate [rt_coherent] is the coherence invariant of C05 *)
  Lemma rt_coherent_gate_iff o g gi :
    gname gi <> None -> gargs gi <> None ->
    (rt_coherent (SGate o g gi) <-> named_from_table N (SGate o g gi)).
  Proof.
    destruct gi as [[n|] [args|]]; cbn [gname gargs]; intros Hn Ha; try (now elim Hn); try (now elim Ha).
    cbn [rt_coherent named_from_table gname gargs]. split.
    - intros (n' & args' & E1 & E2 & H). inversion E1; inversion E2; subst. exact H.
    - intros H. now exists n, args.
  Qed.

  Lemma wf_ir_bits_declared nq nb ir : wf_ir nq nb ir -> bits_declared nb ir.
  Proof.
    unfold wf_ir, bits_declared. apply Forall_impl. intros s [_ H].
    destruct s; cbn [needs_bits]; try exact I. lia.
  Qed.

  (* ------------------------------------------------------------------ *)
  (** * 2. The two declarations                                           *)
  (* ------------------------------------------------------------------ *)

  Lemma rt_vars_nodup nq nb : NoDup (map v_name (rt_vars nq nb)).
  Proof.
    unfold rt_vars. destruct (Z.ltb 0 nb); cbn [map v_name].
    - constructor; [|constructor; [intros []|constructor]]. intros [E|[]]. discriminate E.
    - constructor; [intros []|constructor].
  Qed.

  (* the header lemma: the register sizes are the declared ones *)
  Lemma rt_reg_size_q nq nb : reg_size VQubit (rt_vars nq nb) = nq.
  Proof. unfold rt_vars. destruct (Z.ltb 0 nb); reflexivity. Qed.

  Lemma rt_reg_size_b nq nb : (0 <= nb)%Z -> reg_size VBit (rt_vars nq nb) = nb.
  Proof.
    intros H. unfold rt_vars. destruct (Z.ltb_spec 0 nb) as [L|L]; [reflexivity|].
    cbv. lia.
  Qed.

  Lemma is_q_qop nq nb q : is_q (rt_vars nq nb) (qop q) = true.
  Proof. reflexivity. Qed.

  Lemma get_qop nq nb q : get_indices VQubit (rt_vars nq nb) (qop q) = Ok [q].
  Proof. unfold rt_vars. destruct (Z.ltb 0 nb); reflexivity. Qed.

  Lemma is_q_bop nq nb b : is_q (rt_vars nq nb) (bop b) = false.
  Proof. unfold rt_vars. destruct (Z.ltb 0 nb); reflexivity. Qed.

  Lemma is_b_bop nq nb b : (0 < nb)%Z -> is_b (rt_vars nq nb) (bop b) = true.
  Proof. intros H. unfold rt_vars. apply Z.ltb_lt in H. rewrite H. reflexivity. Qed.

  Lemma get_bop nq nb b : (0 < nb)%Z -> get_indices VBit (rt_vars nq nb) (bop b) = Ok [b].
  Proof. intros H. unfold rt_vars. apply Z.ltb_lt in H. rewrite H. reflexivity. Qed.

  (* ------------------------------------------------------------------ *)
  (** * 3. Arguments of a default gate: qubits first, then literals       *)
  (* ------------------------------------------------------------------ *)

  Definition is_lit_arg (a : arg) : bool := match a with AF _ | AI _ => true | _ => false end.

  Lemma lits_only_match ps : forall args : list arg,
    lits_only ps = true -> args_match ps args = true ->
    qubits_of args = [] /\ params_of args = args /\ forallb is_lit_arg args = true.
  Proof.
    unfold qubits_of, params_of.
    induction ps as [|[nm k] r IH]; intros [|a args] Hs Hm; cbn [args_match] in Hm; try discriminate.
    - repeat split.
    - destruct k; discriminate.
    - destruct k; cbn [lits_only] in Hs; try discriminate; destruct a; try discriminate;
        destruct (IH args Hs Hm) as (E1 & E2 & E3);
        cbn [filter is_qarg negb forallb is_lit_arg andb]; rewrite E1, E2, E3; repeat split.
  Qed.

  Lemma q_then_lits_match ps : forall args : list arg,
    q_then_lits ps = true -> args_match ps args = true ->
    args = (qubits_of args ++ params_of args)%list /\ forallb is_lit_arg (params_of args) = true.
  Proof.
    induction ps as [|[nm k] r IH]; intros args Hs Hm.
    - destruct args; [split; reflexivity|discriminate].
    - destruct k.
      + destruct args as [|a args]; cbn [args_match] in Hm; [discriminate|].
        destruct a; try discriminate. cbn [q_then_lits] in Hs.
        destruct (IH args Hs Hm) as [E1 E2]. unfold qubits_of, params_of in *.
        cbn [filter is_qarg negb List.app]. split; [now rewrite <- E1|exact E2].
      + destruct (lits_only_match _ args Hs Hm) as (E1 & E2 & E3). rewrite E1, E2. now split.
      + destruct (lits_only_match _ args Hs Hm) as (E1 & E2 & E3). rewrite E1, E2. now split.
      + destruct (lits_only_match _ args Hs Hm) as (E1 & E2 & E3). rewrite E1, E2. now split.
  Qed.

  Lemma qubits_of_AQ (args : list arg) : qubits_of args = map (@AQ T) (qubit_ids args).
  Proof.
    unfold qubits_of, qubit_ids. induction args as [|a l IH]; [reflexivity|].
    cbn [filter flat_map]. destruct a; cbn [is_qarg map List.app]; now rewrite IH.
  Qed.

  Lemma round_arg_AQ (qs : list Z) : map round_arg (map (@AQ T) qs) = map (@AQ T) qs.
  Proof. rewrite map_map. reflexivity. Qed.

  (* what [default_gate] tells about accepted arguments *)
  Lemma default_gate_inv n (args : list arg) g gi :
    default_gate N n args = Ok (g, gi) ->
    exists e, find_entry n hand_table = Some e /\ args_match (e_params e) args = true /\
              gi = mkGinfo (Some n) (Some args).
  Proof.
    intros H. pose proof (default_gate_ginfo N _ _ _ _ H) as Hgi.
    unfold default_gate in H. destruct (find_entry n hand_table) as [e|] eqn:Ef; [|discriminate].
    exists e. split; [reflexivity|]. split; [|exact Hgi].
    destruct (eval_entry N 2 hand_table e args) as [g0|] eqn:Ee; [|discriminate].
    destruct (args_match (e_params e) args) eqn:Em; [reflexivity|].
    cbn [eval_entry] in Ee. rewrite Em in Ee. discriminate.
  Qed.

  Lemma default_gate_args_shape n (args : list arg) g gi :
    default_gate N n args = Ok (g, gi) ->
    args = (map (@AQ T) (qubit_ids args) ++ params_of args)%list /\
    forallb is_lit_arg (params_of args) = true /\
    mem_str n hand_gate_set = true /\ contains "measure" n = false /\ contains "reset" n = false.
  Proof.
    intros H. destruct (default_gate_inv _ _ _ _ H) as (e & Ef & Em & _).
    destruct (table_entry _ _ Ef) as (_ & Hs & Hg & Hm & Hr).
    destruct (q_then_lits_match _ _ Hs Em) as [E1 E2]. rewrite <- qubits_of_AQ. auto.
  Qed.

  (** ** 3.1 The success of a default gate does not depend on the real arguments *)

  Lemma args_match_round ps : forall args : list arg,
    args_match ps (map round_arg args) = args_match ps args.
  Proof.
    induction ps as [|[nm k] r IH]; intros [|a args]; cbn [map args_match]; try reflexivity.
    destruct k, a; cbn [round_arg]; auto.
  Qed.

  Lemma arg_qubits_round (args : list arg) : arg_qubits (map round_arg args) = arg_qubits args.
  Proof.
    unfold arg_qubits. induction args as [|a l IH]; [reflexivity|].
    cbn [map flat_map]. rewrite IH. destruct a; reflexivity.
  Qed.

  Lemma eval_entry_round fuel tbl e (args : list arg) g :
    eval_entry N fuel tbl e args = Ok g ->
    exists g', eval_entry N fuel tbl e (map round_arg args) = Ok g' /\ gate_qubits g' = gate_qubits g.
  Proof.
    intros H.
    destruct fuel as [|fuel]; cbn [eval_entry] in H |- *;
      rewrite args_match_round, arg_qubits_round;
      (destruct (negb (args_match (e_params e) args)); [discriminate|]);
      destruct (e_def e) as [|d|callee|loc d]; destruct (arg_qubits args) as [|c [|t rest]];
      try discriminate;
      try (eexists; split; [reflexivity|]; inversion H; subst; reflexivity);
      try (eexists; split; [exact H|reflexivity]).
    all: unfold mk_ctrl in *; unfold eval_bsrdef, mk_bsr in *; cbn [gate_qubits] in *;
      destruct (znodup [c; t]); [|discriminate]; inversion H; subst;
      eexists; split; reflexivity.
  Qed.

  Lemma default_gate_round n (args : list arg) g gi :
    default_gate N n args = Ok (g, gi) ->
    exists g', default_gate N n (map round_arg args)
               = Ok (g', mkGinfo (Some n) (Some (map round_arg args))) /\
               gate_qubits g' = gate_qubits g.
  Proof.
    intros H. unfold default_gate in *.
    destruct (find_entry n hand_table) as [e|] eqn:Ef; [|discriminate].
    destruct (find_entry_In' _ _ _ Ef) as [_ Hn].
    destruct (eval_entry N 2 hand_table e args) as [g0|] eqn:Ee; [|discriminate].
    destruct (eval_entry_round _ _ _ _ _ Ee) as (g' & -> & Hq).
    inversion H; subst. exists g'. split; [reflexivity|exact Hq].
  Qed.

  (* ------------------------------------------------------------------ *)
  (** * 4. One line                                                       *)
  (* ------------------------------------------------------------------ *)

  Lemma lit_cell nq nb (a : arg) : is_lit_arg a = true ->
    is_q (rt_vars nq nb) (op_of_rarg (rarg_of dec8 a)) = false /\
    is_literal (op_of_rarg (rarg_of dec8 a)) = true /\
    gate_cell (rt_vars nq nb) (op_of_rarg (rarg_of dec8 a)) 0 = round_arg a.
  Proof. destruct a; try discriminate; intros _; repeat split. Qed.

  (* a gate line: one call, on the qubit operands followed by the converted literals *)
  Lemma expand_gate_line nq nb n (qs : list Z) (ps : list arg) :
    mem_str n hand_gate_set = true -> qs <> [] -> forallb is_lit_arg ps = true ->
    expand_stmt (rt_vars nq nb) (mkAstmt n (map qop qs ++ map op_of_rarg (map (rarg_of dec8) ps))%list)
    = Ok [mkCall KGate n (map (@AQ T) qs ++ map round_arg ps)%list].
  Proof.
    intros Hn Hq Hl. rewrite forallb_forall in Hl.
    rewrite (gate_stmt (rt_vars nq nb) n _ Hn).
    rewrite (expand_gate_spec (rt_vars nq nb) _ 1).
    - cbn [seq map]. do 3 f_equal. rewrite map_app, !map_map. f_equal.
      + apply map_ext. intros q. unfold gate_cell. now rewrite is_q_qop, get_qop.
      + apply map_ext_in. intros a Ha. now apply lit_cell, Hl.
    - apply rt_vars_nodup.
    - intros o Ho Hqo. apply in_app_or in Ho. destruct Ho as [Ho|Ho].
      + apply in_map_iff in Ho. destruct Ho as (q & <- & _). exists [q]. now rewrite get_qop.
      + rewrite map_map in Ho. apply in_map_iff in Ho. destruct Ho as (a & <- & Ha).
        destruct (lit_cell nq nb a (Hl a Ha)) as [E _]. congruence.
    - intros o Ho Hqo. apply in_app_or in Ho. destruct Ho as [Ho|Ho].
      + apply in_map_iff in Ho. destruct Ho as (q & <- & _). now rewrite is_q_qop in Hqo.
      + rewrite map_map in Ho. apply in_map_iff in Ho. destruct Ho as (a & <- & Ha).
        now destruct (lit_cell nq nb a (Hl a Ha)) as (_ & E & _).
    - destruct qs as [|q qs]; [now elim Hq|]. exists (qop q). split; [now left|apply is_q_qop].
  Qed.

  (* a measure line "b[b] = name q[q]" *)
  Lemma expand_measure_line nq nb n q b :
    mem_str n hand_measure_set = true -> (0 < nb)%Z ->
    expand_stmt (rt_vars nq nb) (mkAstmt n [bop b; qop q]) = Ok [mkCall KMeasure n [AQ q; AB b]].
  Proof.
    intros Hn Hb.
    rewrite (measure_stmt_spec (rt_vars nq nb) n (bop b) (qop q) [q] [b] 1 Hn);
      [reflexivity|now apply is_b_bop|apply is_q_qop|now apply get_bop|apply get_qop|reflexivity|reflexivity].
  Qed.

  (* a reset line "reset q[q]" *)
  Lemma expand_reset_line nq nb q :
    expand_stmt (rt_vars nq nb) (mkAstmt "reset" (map qop [q] ++ map op_of_rarg [])%list)
    = Ok [mkCall KReset "reset" [AQ q]].
  Proof.
    rewrite reset_stmt. cbn [map List.app]. unfold expand_reset_args.
    cbn [map collect]. rewrite is_q_qop, get_qop. reflexivity.
  Qed.

  (* the circuit side conditions of one statement *)
  Definition rt_good (nb : Z) (s : stmt) : Prop := stmt_ok dec8 s /\ rt_coherent s /\ needs_bits nb s.

  (* the statement the parser builds from a line *)
  Lemma rebuild_gate o g gi n (args : list arg) :
    gname gi = Some n -> gargs gi = Some args -> default_gate N n args = Ok (g, gi) ->
    exists g', default_gate N n (map round_arg args) = Ok (g', mkGinfo (Some n) (Some (map round_arg args))) /\
               gate_qubits g' = gate_qubits g /\
               rebuild (SGate o g gi) = SGate o g' (mkGinfo (Some n) (Some (map round_arg args))).
  Proof.
    intros Hn Ha H. destruct (default_gate_round _ _ _ _ H) as (g' & E & Hq).
    exists g'. split; [exact E|]. split; [exact Hq|]. cbn [rebuild]. now rewrite Hn, Ha, E.
  Qed.

  (* THE PER-STATEMENT LEMMA: a comment gives no AST statement; any other
     statement gives one AST statement, which expands to one call, which
     evaluates to the rebuilt statement *)
  Lemma line_parse nq nb (s : stmt) : rt_good nb s ->
    if is_comment s then ast_of_line (line_of dec8 anon_text s) = Some []
    else exists st c, ast_of_line (line_of dec8 anon_text s) = Some [st] /\
                      expand_stmt (rt_vars nq nb) st = Ok [c] /\
                      forall o, eval_call N o c = Ok (set_oid o (rebuild s)).
  Proof.
    intros (Hok & Hco & Hnb).
    destruct s as [o g gi|o q b ax gi|o q gi|t]; cbn [is_comment]; [| | |reflexivity].
    - destruct Hok as (n & args & Hgn & Hga & Hid & Hargs & Hq).
      destruct Hco as (n' & args' & Hgn' & Hga' & Hd).
      assert (n' = n) by congruence. assert (args' = args) by congruence. subst n' args'.
      destruct (default_gate_args_shape _ _ _ _ Hd) as (Hsh & Hl & Hm & _).
      destruct (rebuild_gate o g gi n args Hgn Hga Hd) as (g' & Hd' & _ & Hr).
      cbn [line_of]. rewrite Hga. unfold name_of. rewrite Hgn. cbn [ast_of_line].
      eexists. eexists. split; [reflexivity|]. split.
      + now apply expand_gate_line.
      + intros o'. unfold eval_call. cbn [c_kind c_name c_args].
        rewrite <- round_arg_AQ, <- map_app, <- Hsh, Hd', Hr. reflexivity.
    - destruct Hok as (n & q' & b' & rest & Hgn & Hga & Hid & Hq & Hb).
      destruct Hco as (n' & Hm & -> & ->). cbn [gname gargs] in Hgn, Hga.
      inversion Hgn; inversion Hga; subst.
      cbn [line_of gargs]. unfold name_of. cbn [gname ast_of_line needs_bits] in *.
      eexists. eexists. split; [reflexivity|]. split.
      + now apply expand_measure_line.
      + intros o'. reflexivity.
    - destruct Hok as (n & q' & rest & Hgn & Hga & Hid & Hq).
      cbn [rt_coherent] in Hco. subst gi. cbn [gname gargs] in Hgn, Hga.
      inversion Hgn; inversion Hga; subst.
      cbn [line_of gargs]. unfold name_of. cbn [gname ast_of_line].
      eexists. eexists. split; [reflexivity|]. split.
      + apply expand_reset_line.
      + intros o'. reflexivity.
  Qed.

  (* ------------------------------------------------------------------ *)
  (** * 5. The whole program                                              *)
  (* ------------------------------------------------------------------ *)

  Lemma lines_parse nq nb (ir : list stmt) : Forall (rt_good nb) ir ->
    exists sts cs, ast_of_lines (map (line_of dec8 anon_text) ir) = Some sts /\
                   expand_program (rt_vars nq nb) sts = Ok cs /\
                   forall o, eval_calls N o cs = Ok (renumber o (map rebuild (strip_comments ir))).
  Proof.
    induction 1 as [|s r Hs _ (sts & cs & Ha & He & Hv)].
    - exists [], []. repeat split.
    - pose proof (line_parse nq nb s Hs) as Hl. unfold strip_comments in *.
      cbn [map ast_of_lines filter]. destruct (is_comment s) eqn:Ec; cbn [negb].
      + exists sts, cs. rewrite Hl, Ha. repeat split; assumption.
      + destruct Hl as (st & c & Hl & Hx & Hc). exists (st :: sts), (c :: cs).
        rewrite Hl, Ha. split; [reflexivity|]. split.
        * cbn [expand_program]. rewrite Hx, He. reflexivity.
        * intros o. cbn [eval_calls map renumber]. rewrite Hc, Hv. reflexivity.
  Qed.

  Lemma rt_good_all nb (ir : list stmt) :
    writable dec8 ir -> Forall rt_coherent ir -> bits_declared nb ir -> Forall (rt_good nb) ir.
  Proof.
    unfold writable, bits_declared. intros H1 H2 H3. rewrite Forall_forall in *.
    intros s Hs. repeat split; auto.
  Qed.

  (** THE ROUND TRIP THROUGH THE PARSER.  The text written for a writable,
      coherent circuit is read by [read3], handed over as libqasm's AST, and
      parsed by OpenSquirrel's parser to: the same register sizes; the
      statements of the circuit without its comments, every real argument
      rounded to its 8-digit literal, every gate rebuilt by the default table
      from those arguments, numbered 1, 2, 3, ... *)
  Theorem parse_read_write (nq nb : Z) (ir : list stmt) (text : string) (p : rprogram) :
    write3 dec8 anon_text nq nb ir = Ok text ->
    (0 <= nq)%Z -> (0 <= nb)%Z ->
    writable dec8 ir -> Forall rt_coherent ir -> bits_declared nb ir ->
    read3 text = Some p ->
    exists vars sts,
      ast_of_program p = Some (vars, sts) /\
      parse_program N vars sts = Ok (nq, nb, renumber 1%positive (map rebuild (strip_comments ir))).
  Proof.
    intros Hw Hq Hb Hok Hco Hbits Hr.
    rewrite (read3_write3 dec8 anon_text nq nb ir text Hw Hq Hb Hok) in Hr. injection Hr as <-.
    destruct (lines_parse nq nb ir (rt_good_all nb ir Hok Hco Hbits)) as (sts & cs & Ha & He & Hv).
    exists (rt_vars nq nb), sts. split.
    - unfold ast_of_program. cbn [r_version r_lines r_nq r_nb]. now rewrite Ha.
    - unfold parse_program. rewrite He, Hv, rt_reg_size_q, (rt_reg_size_b nq nb Hb). reflexivity.
  Qed.

  (* the same, modulo object identities *)
  Corollary parse_read_write_modulo_oids (nq nb : Z) (ir : list stmt) (text : string) (p : rprogram) :
    write3 dec8 anon_text nq nb ir = Ok text ->
    (0 <= nq)%Z -> (0 <= nb)%Z ->
    writable dec8 ir -> Forall rt_coherent ir -> bits_declared nb ir ->
    read3 text = Some p ->
    exists vars sts ir',
      ast_of_program p = Some (vars, sts) /\
      parse_program N vars sts = Ok (nq, nb, ir') /\
      same_modulo_oid ir' (map rebuild (strip_comments ir)).
  Proof.
    intros Hw Hq Hb Hok Hco Hbits Hr.
    destruct (parse_read_write nq nb ir text p Hw Hq Hb Hok Hco Hbits Hr) as (vars & sts & Ha & Hp).
    exists vars, sts. eexists. split; [exact Ha|]. split; [exact Hp|]. apply forget_renumber.
  Qed.

  (** ** 5.1 Statement by statement *)

  Definition rt_oid (s : stmt) : option positive :=
    match s with SGate o _ _ | SMeasure o _ _ _ _ | SReset o _ _ => Some o | SComment _ => None end.
  Definition rt_ginfo (s : stmt) : option (ginfo T) :=
    match s with SGate _ _ gi | SMeasure _ _ _ _ gi | SReset _ _ gi => Some gi | SComment _ => None end.
  (* the instruction: its kind and its name *)
  Definition rt_instr (s : stmt) : nat * option string :=
    match s with
    | SGate _ _ gi => (0%nat, gname gi)
    | SMeasure _ _ _ _ gi => (1%nat, gname gi)
    | SReset _ _ gi => (2%nat, gname gi)
    | SComment _ => (3%nat, None)
    end.
  Definition rt_args (s : stmt) : option (list arg) :=
    match rt_ginfo s with Some gi => gargs gi | None => None end.
  Definition rt_bit (s : stmt) : option Z := match s with SMeasure _ _ b _ _ => Some b | _ => None end.
  Definition rt_axis (s : stmt) : option (axis3 T) := match s with SMeasure _ _ _ ax _ => Some ax | _ => None end.

  (* integer, qubit and bit arguments are untouched; a real x becomes its literal *)
  Lemma round_arg_spec (a : arg) :
    match a with
    | AF x => round_arg a = AF (of_lit (v3_float dec8 x))
    | _ => round_arg a = a
    end.
  Proof. destruct a; reflexivity. Qed.

  (* what [rebuild] keeps *)
  Lemma rebuild_view (s : stmt) : rt_coherent s ->
    rt_oid (rebuild s) = rt_oid s /\
    rt_instr (rebuild s) = rt_instr s /\
    stmt_qubits (rebuild s) = stmt_qubits s /\
    rt_bit (rebuild s) = rt_bit s /\
    rt_axis (rebuild s) = rt_axis s /\
    rt_args (rebuild s) = option_map (map round_arg) (rt_args s) /\
    rt_coherent (rebuild s).
  Proof.
    destruct s as [o g gi|o q b ax gi|o q gi|t]; intros Hco.
    - destruct Hco as (n & args & Hgn & Hga & Hd).
      destruct (rebuild_gate o g gi n args Hgn Hga Hd) as (g' & Hd' & Hq & ->).
      cbn [rt_oid rt_instr stmt_qubits rt_bit rt_axis rt_args rt_ginfo gname gargs].
      rewrite Hgn, Hga, Hq. repeat split. cbn [rt_coherent]. eexists. eexists. repeat split. exact Hd'.
    - destruct Hco as (n & Hm & -> & ->). cbn [rebuild]. repeat split. now exists n.
    - cbn [rt_coherent] in Hco. subst gi. cbn [rebuild]. repeat split.
    - repeat split.
  Qed.

  Lemma set_oid_view o (s : stmt) :
    rt_instr (set_oid o s) = rt_instr s /\ stmt_qubits (set_oid o s) = stmt_qubits s /\
    rt_bit (set_oid o s) = rt_bit s /\ rt_axis (set_oid o s) = rt_axis s /\
    rt_args (set_oid o s) = rt_args s /\
    (is_comment s = false -> rt_oid (set_oid o s) = Some o).
  Proof. destruct s; repeat split; discriminate. Qed.

  Lemma renumber_nth_oid (l : list stmt) : forall o i s, nth_error l i = Some s ->
    nth_error (renumber o l) i = Some (set_oid (Pos.of_nat (Pos.to_nat o + i)) s).
  Proof.
    induction l as [|x r IH]; intros o [|i] s H; cbn in H; try discriminate.
    - injection H as <-. cbn [renumber nth_error]. now rewrite Nat.add_0_r, Pos2Nat.id.
    - cbn [renumber nth_error]. rewrite (IH _ _ _ H). do 3 f_equal. lia.
  Qed.

  (** Statement [i] of the circuit without its comments is read back as
      statement [i], with object identity [i+1]: the same instruction (kind
      and name), the same qubit operands, the same bit target and axis, the
      same arguments except that every real [x] is [of_lit (v3_float dec8 x)]. *)
  Theorem parse_read_write_statementwise (nq nb : Z) (ir : list stmt) (text : string) (p : rprogram) :
    write3 dec8 anon_text nq nb ir = Ok text ->
    (0 <= nq)%Z -> (0 <= nb)%Z ->
    writable dec8 ir -> Forall rt_coherent ir -> bits_declared nb ir ->
    read3 text = Some p ->
    exists vars sts ir',
      ast_of_program p = Some (vars, sts) /\
      parse_program N vars sts = Ok (nq, nb, ir') /\
      List.length ir' = List.length (strip_comments ir) /\
      forall i s, nth_error (strip_comments ir) i = Some s ->
        exists s', nth_error ir' i = Some s' /\
          rt_oid s' = Some (Pos.of_nat (S i)) /\
          rt_instr s' = rt_instr s /\
          stmt_qubits s' = stmt_qubits s /\
          rt_bit s' = rt_bit s /\
          rt_axis s' = rt_axis s /\
          rt_args s' = option_map (map round_arg) (rt_args s) /\
          rt_coherent s'.
  Proof.
    intros Hw Hq Hb Hok Hco Hbits Hr.
    destruct (parse_read_write nq nb ir text p Hw Hq Hb Hok Hco Hbits Hr) as (vars & sts & Ha & Hp).
    exists vars, sts. eexists. split; [exact Ha|]. split; [exact Hp|]. split.
    - now rewrite renumber_length, map_length.
    - intros i s Hi.
      assert (Hin : In s (strip_comments ir)) by (eapply nth_error_In; eauto).
      unfold strip_comments in Hin. apply filter_In in Hin. destruct Hin as [Hin Hnc].
      apply negb_true_iff in Hnc.
      rewrite Forall_forall in Hco. pose proof (rebuild_view s (Hco s Hin)) as (V0 & V1 & V2 & V3 & V4 & V5 & V6).
      eexists. split.
      + apply renumber_nth_oid. apply map_nth_error. exact Hi.
      + pose proof (set_oid_view (Pos.of_nat (Pos.to_nat 1 + i)) (rebuild s)) as (W1 & W2 & W3 & W4 & W5 & W6).
        rewrite W1, W2, W3, W4, W5, V1, V2, V3, V4, V5. repeat split.
        * rewrite W6; [reflexivity|]. destruct s; try discriminate; cbn [rebuild];
            repeat (match goal with |- context [match ?x with _ => _ end] => destruct x end); reflexivity.
        * destruct (rebuild s) eqn:E; cbn [set_oid rt_coherent] in *; exact V6.
  Qed.

  (* ------------------------------------------------------------------ *)
  (** * 6. Exact parameters: the round trip is the identity               *)
  (* ------------------------------------------------------------------ *)

  (* every real argument is its own 8-digit literal (e.g. it has at most 8
     significant digits) *)
  Definition exact_params (ir : list stmt) : Prop :=
    Forall (fun s => Forall (fun x => of_lit (v3_float dec8 x) = x) (stmt_reals s)) ir.

  Lemma round_args_exact (args : list arg) :
    Forall (fun x => of_lit (v3_float dec8 x) = x)
           (flat_map (fun a => match a with AF x => [x] | _ => [] end) args) ->
    map round_arg args = args.
  Proof.
    induction args as [|a l IH]; intros H; [reflexivity|]. cbn [flat_map] in H.
    apply Forall_app in H. destruct H as [H1 H2]. cbn [map]. rewrite (IH H2). f_equal.
    destruct a; try reflexivity. inversion H1; subst. cbn [round_arg]. unfold round_real. congruence.
  Qed.

  Lemma rebuild_exact (s : stmt) :
    rt_coherent s -> Forall (fun x => of_lit (v3_float dec8 x) = x) (stmt_reals s) -> rebuild s = s.
  Proof.
    destruct s as [o g gi|o q b ax gi|o q gi|t]; try reflexivity.
    intros (n & args & Hgn & Hga & Hd) Hx. cbn [stmt_reals] in Hx. rewrite Hga in Hx.
    cbn [rebuild]. now rewrite Hgn, Hga, (round_args_exact args Hx), Hd.
  Qed.

  Lemma rebuild_all_exact (ir : list stmt) :
    Forall rt_coherent ir -> exact_params ir -> map rebuild (strip_comments ir) = strip_comments ir.
  Proof.
    unfold exact_params. intros Hco Hx. rewrite <- (map_id (strip_comments ir)) at 2.
    apply map_ext_in. intros s Hs. unfold strip_comments in Hs. apply filter_In in Hs. destruct Hs as [Hs _].
    rewrite Forall_forall in Hco, Hx. now apply rebuild_exact; auto.
  Qed.

  (** With exact parameters the parsed circuit IS the circuit (comments
      dropped, statements numbered 1, 2, 3, ...). *)
  Corollary parse_read_write_exact_params (nq nb : Z) (ir : list stmt) (text : string) (p : rprogram) :
    write3 dec8 anon_text nq nb ir = Ok text ->
    (0 <= nq)%Z -> (0 <= nb)%Z ->
    writable dec8 ir -> Forall rt_coherent ir -> bits_declared nb ir -> exact_params ir ->
    read3 text = Some p ->
    exists vars sts ir',
      ast_of_program p = Some (vars, sts) /\
      parse_program N vars sts = Ok (nq, nb, ir') /\
      ir' = renumber 1%positive (strip_comments ir) /\
      same_modulo_oid ir' (strip_comments ir).
  Proof.
    intros Hw Hq Hb Hok Hco Hbits Hx Hr.
    destruct (parse_read_write nq nb ir text p Hw Hq Hb Hok Hco Hbits Hr) as (vars & sts & Ha & Hp).
    rewrite (rebuild_all_exact ir Hco Hx) in Hp.
    exists vars, sts. eexists. split; [exact Ha|]. split; [exact Hp|]. split; [reflexivity|].
    apply forget_renumber.
  Qed.

  (* in particular a circuit without comments comes back as itself, modulo oids *)
  Corollary parse_read_write_identity (nq nb : Z) (ir : list stmt) (text : string) (p : rprogram) :
    write3 dec8 anon_text nq nb ir = Ok text ->
    (0 <= nq)%Z -> (0 <= nb)%Z ->
    writable dec8 ir -> Forall rt_coherent ir -> bits_declared nb ir -> exact_params ir ->
    forallb (fun s => negb (is_comment s)) ir = true ->
    read3 text = Some p ->
    exists vars sts ir',
      ast_of_program p = Some (vars, sts) /\
      parse_program N vars sts = Ok (nq, nb, ir') /\ same_modulo_oid ir' ir.
  Proof.
    intros Hw Hq Hb Hok Hco Hbits Hx Hnc Hr.
    destruct (parse_read_write_exact_params nq nb ir text p Hw Hq Hb Hok Hco Hbits Hx Hr)
      as (vars & sts & ir' & Ha & Hp & _ & Hs).
    exists vars, sts, ir'. split; [exact Ha|]. split; [exact Hp|].
    assert (E : strip_comments ir = ir).
    { unfold strip_comments. clear -Hnc. induction ir as [|s r IH]; [reflexivity|].
      cbn [forallb filter] in *. apply andb_true_iff in Hnc. destruct Hnc as [-> H]. now rewrite (IH H). }
    now rewrite E in Hs.
  Qed.

  (* ------------------------------------------------------------------ *)
  (** * 6b. The hypothesis [rt_coherent] is what the parser produces      *)
  (* ------------------------------------------------------------------ *)

  Definition call_ok (c : call T) : Prop :=
    match c_kind c with
    | KGate => True
    | KMeasure => mem_str (c_name c) hand_measure_set = true
    | KReset => c_name c = "reset"
    end.

  Lemma expand_stmt_call_ok vars (st : astmt T) cs : expand_stmt vars st = Ok cs -> Forall call_ok cs.
  Proof.
    unfold expand_stmt. intros H.
    destruct (contains "measure" (a_name st)).
    - destruct (mem_str (a_name st) hand_measure_set) eqn:Em; [|discriminate].
      destruct (expand_measure_args vars (a_ops st)) as [rows|]; [|discriminate]. injection H as <-.
      apply Forall_forall. intros c Hc. apply in_map_iff in Hc. destruct Hc as (r & <- & _). exact Em.
    - destruct (contains "reset" (a_name st)).
      + destruct (mem_str (a_name st) hand_reset_set) eqn:Em; [|discriminate].
        destruct (expand_reset_args vars (a_ops st)) as [rows|]; [|discriminate]. injection H as <-.
        apply Forall_forall. intros c Hc. apply in_map_iff in Hc. destruct Hc as (r & <- & _).
        unfold call_ok. cbn [c_kind c_name]. unfold mem_str, hand_reset_set in Em. cbn [existsb] in Em.
        rewrite orb_false_r in Em. now apply String.eqb_eq in Em.
      + destruct (if mem_str (a_name st) hand_gate_set then Some (a_name st)
                  else assoc_str (a_name st) hand_aliases) as [f|]; [|discriminate].
        destruct (expand_gate_args vars (a_ops st)) as [rows|]; [|discriminate]. injection H as <-.
        apply Forall_forall. intros c Hc. apply in_map_iff in Hc. destruct Hc as (r & <- & _). exact I.
  Qed.

  Lemma expand_program_call_ok vars (sts : list (astmt T)) : forall cs,
    expand_program vars sts = Ok cs -> Forall call_ok cs.
  Proof.
    induction sts as [|st r IH]; intros cs H; cbn [expand_program] in H.
    - injection H as <-. constructor.
    - destruct (expand_stmt vars st) as [c1|] eqn:E1; [|discriminate].
      destruct (expand_program vars r) as [c2|]; [|discriminate]. injection H as <-.
      apply Forall_app. split; [eapply expand_stmt_call_ok; eauto|now apply IH].
  Qed.

  Lemma eval_call_rt_coherent o (c : call T) s : call_ok c -> eval_call N o c = Ok s -> rt_coherent s.
  Proof.
    unfold call_ok, eval_call. destruct c as [k n args]. cbn [c_kind c_name c_args]. intros Hc H.
    destruct k.
    - destruct (default_gate N n args) as [[g gi]|] eqn:Ed; [|discriminate]. injection H as <-.
      pose proof (default_gate_ginfo N _ _ _ _ Ed) as ->. cbn [rt_coherent]. exists n, args. repeat split. exact Ed.
    - destruct args as [|[q| | |] [|[|b| |] [|]]]; try discriminate. injection H as <-.
      cbn [rt_coherent]. exists n. repeat split. exact Hc.
    - destruct args as [|[q| | |] [|]]; try discriminate. injection H as <-. subst n. reflexivity.
  Qed.

  (** Every circuit the parser returns satisfies [rt_coherent]: the round trip
      can be applied to parsed circuits, and iterated. *)
  Theorem parse_program_rt_coherent vars (sts : list (astmt T)) nq nb ir :
    parse_program N vars sts = Ok (nq, nb, ir) -> Forall rt_coherent ir.
  Proof.
    intros H. apply parse_register_sizes in H.
    destruct H as (_ & _ & _ & _ & calls & He & _ & _ & HF).
    pose proof (expand_program_call_ok _ _ _ He) as Hc. clear He.
    induction HF as [|c s cs ss (o & Ho) _ IH]; [constructor|].
    inversion Hc; subst. constructor; [eapply eval_call_rt_coherent; eauto|auto].
  Qed.
End RoundTrip.

Arguments forget_oid {T} s.
Arguments forget_oids {T} l.
Arguments same_modulo_oid {T} a b.
Arguments strip_comments {T} ir.
Arguments is_comment {T} s.
Arguments set_oid {T} o s.
Arguments renumber {T} o l.

(* ------------------------------------------------------------------ *)
(** * 6c. What [round_real] is when literals are converted exactly (T := Q) *)
(* ------------------------------------------------------------------ *)
(* with the exact conversion of a literal to a rational, the real argument read
   back is the decimal [dec8 x]: x to 8 significant digits *)

From Coq Require QArith.

Definition of_lit_Q (s : string) : QArith_base.Q :=
  match signed_literal_value s with Some q => q | None => QArith_base.Qmake 0 1 end.

Lemma round_real_Q (dec8 : QArith_base.Q -> dec) (x : QArith_base.Q) :
  wf_dec (dec8 x) -> dec_finite (dec8 x) ->
  optQeq (Some (round_real dec8 of_lit_Q x)) (dec_value (dec8 x)).
Proof.
  intros Hw Hf. pose proof (render_fix_value (dec8 x) Hw Hf) as H.
  unfold round_real, of_lit_Q, v3_float.
  destruct (signed_literal_value (fix_literal (render_py8 (dec8 x)))) as [q|]; [exact H|].
  destruct (dec8 x) as [ | |neg ds e]; try destruct Hf. cbn [dec_value optQeq] in H. destruct H.
Qed.

(* ------------------------------------------------------------------ *)
(** * 7. The operation (over R)                                          *)
(* ------------------------------------------------------------------ *)

From Coq Require Reals.
From OSQ Require RNum Kraus SemBaseP.

Section RoundTripSem.
  Import Reals RNum Kraus SemBaseP.
  Variable dec8 : R -> dec.
  Variable anon_text : gate R -> string.
  Variable of_lit : string -> R.

  Lemma stmt_op_set_oid n o k p (s : stmt R) : stmt_op n o k (set_oid p s) = stmt_op n o k s.
  Proof. destruct s; reflexivity. Qed.

  Lemma kraus_from_forget n o (l : list (stmt R)) : forall k acc,
    kraus_from n o k acc (forget_oids l) = kraus_from n o k acc l.
  Proof.
    induction l as [|s r IH]; intros k acc; [reflexivity|].
    cbn [forget_oids map kraus_from]. unfold forget_oid at 1. rewrite stmt_op_set_oid.
    destruct (stmt_op n o k s) as [[[M|]|e] k']; try reflexivity; apply IH.
  Qed.

  (* the Kraus operators do not see object identities *)
  Lemma kraus_forget_oids n o (l : list (stmt R)) : kraus n o (forget_oids l) = kraus n o l.
  Proof. apply kraus_from_forget. Qed.

  Lemma effects_forget_oids (l : list (stmt R)) : effects (forget_oids l) = effects l.
  Proof.
    induction l as [|s r IH]; [reflexivity|]. cbn [forget_oids map]. fold (forget_oids r).
    destruct s; cbn [forget_oid set_oid effects]; now rewrite IH.
  Qed.

  Lemma kraus_from_strip n o (l : list (stmt R)) : forall k acc,
    kraus_from n o k acc (strip_comments l) = kraus_from n o k acc l.
  Proof.
    unfold strip_comments.
    induction l as [|s r IH]; intros k acc; [reflexivity|].
    destruct s; cbn [filter is_comment negb kraus_from]; try apply IH;
      match goal with |- context [stmt_op ?n ?o ?k ?s] => destruct (stmt_op n o k s) as [[[M|]|e] k'] end;
      try reflexivity; apply IH.
  Qed.

  Lemma effects_strip (l : list (stmt R)) : effects (strip_comments l) = effects l.
  Proof.
    unfold strip_comments. induction l as [|s r IH]; [reflexivity|].
    destruct s; cbn [filter is_comment negb effects]; now rewrite IH.
  Qed.

  Theorem same_modulo_oid_same_operation n (a b : list (stmt R)) :
    same_modulo_oid b a -> same_operation n a b.
  Proof.
    unfold same_modulo_oid. intros H. split.
    - now rewrite <- (effects_forget_oids b), H, effects_forget_oids.
    - intros o A HA. exists A. split; [|apply mequiv_refl].
      now rewrite <- (kraus_forget_oids n o b), H, kraus_forget_oids.
  Qed.

  Theorem strip_comments_same_operation n (ir : list (stmt R)) : same_operation n ir (strip_comments ir).
  Proof.
    split; [apply effects_strip|]. intros o A HA. exists A. split; [|apply mequiv_refl].
    unfold kraus in *. now rewrite kraus_from_strip.
  Qed.

  (** The parsed circuit does what the rounded circuit does, and with exact
      parameters what the original circuit does: the same measurements and
      resets in the same order on the same bits and, for every combination of
      outcomes, the same Kraus operator. *)
  Theorem parse_read_write_same_operation_rounded (nq nb : Z) (ir : list (stmt R)) (text : string) (p : rprogram) :
    write3 dec8 anon_text nq nb ir = Ok text ->
    (0 <= nq)%Z -> (0 <= nb)%Z ->
    writable dec8 ir -> Forall (rt_coherent RNum) ir -> bits_declared nb ir ->
    read3 text = Some p ->
    exists vars sts ir',
      ast_of_program of_lit p = Some (vars, sts) /\
      parse_program RNum vars sts = Ok (nq, nb, ir') /\
      same_operation nq (map (rebuild RNum dec8 of_lit) ir) ir'.
  Proof.
    intros Hw Hq Hb Hok Hco Hbits Hr.
    destruct (parse_read_write_modulo_oids RNum dec8 anon_text of_lit nq nb ir text p Hw Hq Hb Hok Hco Hbits Hr)
      as (vars & sts & ir' & Ha & Hp & Hs).
    exists vars, sts, ir'. split; [exact Ha|]. split; [exact Hp|].
    eapply same_operation_trans; [apply strip_comments_same_operation|].
    apply same_modulo_oid_same_operation.
    assert (E : strip_comments (map (rebuild RNum dec8 of_lit) ir)
                = map (rebuild RNum dec8 of_lit) (strip_comments ir)).
    { unfold strip_comments. clear. induction ir as [|s r IH]; [reflexivity|].
      cbn [map filter]. rewrite IH.
      assert (C : is_comment (rebuild RNum dec8 of_lit s) = is_comment s).
      { destruct s; try reflexivity. cbn [rebuild].
        repeat (match goal with |- context [match ?x with _ => _ end] => destruct x end); reflexivity. }
      rewrite C. destruct (is_comment s); reflexivity. }
    now rewrite E.
  Qed.

  Corollary parse_read_write_same_operation (nq nb : Z) (ir : list (stmt R)) (text : string) (p : rprogram) :
    write3 dec8 anon_text nq nb ir = Ok text ->
    (0 <= nq)%Z -> (0 <= nb)%Z ->
    writable dec8 ir -> Forall (rt_coherent RNum) ir -> bits_declared nb ir ->
    exact_params dec8 of_lit ir ->
    read3 text = Some p ->
    exists vars sts ir',
      ast_of_program of_lit p = Some (vars, sts) /\
      parse_program RNum vars sts = Ok (nq, nb, ir') /\
      same_operation nq ir ir'.
  Proof.
    intros Hw Hq Hb Hok Hco Hbits Hx Hr.
    destruct (parse_read_write_exact_params RNum dec8 anon_text of_lit nq nb ir text p Hw Hq Hb Hok Hco Hbits Hx Hr)
      as (vars & sts & ir' & Ha & Hp & _ & Hs).
    exists vars, sts, ir'. split; [exact Ha|]. split; [exact Hp|].
    eapply same_operation_trans; [apply strip_comments_same_operation|].
    now apply same_modulo_oid_same_operation.
  Qed.
End RoundTripSem.

(* ------------------------------------------------------------------ *)
(** * 8. Non-vacuity: concrete circuits, by computation                  *)
(* ------------------------------------------------------------------ *)
(* T := dec with a dummy arithmetic (the theorems hold for any N : Num T, so a
   dictionary whose operations return their first argument will do);
   dec8 := truncation to 8 digits (it is the correct rounding on the values
   used); of_lit := a table on the literals that occur. *)

Definition ex_z (z : Z) : dec := DFin (Z.ltb z 0) [Z.to_nat (Z.abs z)] 0.
Definition decNum : Num dec :=
  mkNum dec ex_z (fun a _ => a) (fun a _ => a) (fun a _ => a) (fun a _ => a)
        (fun a => a) (fun a => a) (fun a => a) (fun a => a) (fun a => a) (fun a => a) (fun a => a)
        (fun a _ => a) (DFin false [3;1;4;1;5;9;2;7]%nat 0) (fun a _ => a) (fun a _ => a)
        (fun _ _ => false) (fun _ _ => false) (fun _ _ => false) (fun a _ => a)
        (fun _ a => a) (fun _ a => a) (fun _ => true) (fun a => a).

Definition ex_trunc8 (d : dec) : dec :=
  match d with DFin n ds e => DFin n (firstn 8 ds) e | _ => d end.

Definition ex_theta_long : dec := DFin false [1;5;7;0;7;9;6;3;2;6;7;9]%nat 0.   (* 1.57079632679 *)

Definition ex_of_lit (s : string) : dec :=
  if String.eqb s "1.5707963" then ex_theta
  else if String.eqb s "-1.0e-05" then ex_small
  else ex_z 0.

(* a default gate function called on arguments *)
Definition ex_mk (o : positive) (name : string) (args : list (arg dec)) : stmt dec :=
  match default_gate decNum name args with
  | Ok (g, gi) => SGate o g gi
  | Err _ => SComment "not a default gate"
  end.

Definition ex_zaxis : axis3 dec := Construct.mk_axis decNum (nofZ decNum 0, nofZ decNum 0, nofZ decNum 1).

(* comment, H, CNOT, Rx(1.57079632679), CR(-1.0e-05), CRk(3), measure, reset; arbitrary oids *)
Definition ex_rt (theta : dec) : list (stmt dec) :=
  [ SComment "bell";
    ex_mk 7 "H" [AQ 0%Z];
    ex_mk 3 "CNOT" [AQ 0%Z; AQ 1%Z];
    ex_mk 9 "Rx" [AQ 1%Z; AF theta];
    ex_mk 2 "CR" [AQ 1%Z; AQ 0%Z; AF ex_small];
    ex_mk 5 "CRk" [AQ 0%Z; AQ 1%Z; AI 3%Z];
    SMeasure 4 1%Z 0%Z ex_zaxis (mkGinfo (Some "measure") (Some [AQ 1%Z; AB 0%Z]));
    SReset 11 0%Z (mkGinfo (Some "reset") (Some [AQ 0%Z])) ].

Example ex_rt_text :
  write3 ex_trunc8 ex_anon 2 1 (ex_rt ex_theta_long) =
  Ok ("version 3.0" ++ NL ++ NL ++ "qubit[2] q" ++ NL ++ "bit[1] b" ++ NL ++ NL ++ NL ++
      "/* bell */" ++ NL ++ NL ++
      "H q[0]" ++ NL ++ "CNOT q[0], q[1]" ++ NL ++ "Rx(1.5707963) q[1]" ++ NL ++
      "CR(-1.0e-05) q[1], q[0]" ++ NL ++ "CRk(3) q[0], q[1]" ++ NL ++
      "b[0] = measure q[1]" ++ NL ++ "reset q[0]" ++ NL).
Proof. vm_compute. reflexivity. Qed.

(* the whole chain, computed *)
Definition ex_chain (nq nb : Z) (ir : list (stmt dec)) : option (result (Z * Z * list (stmt dec))) :=
  match write3 ex_trunc8 ex_anon nq nb ir with
  | Ok t => match read3 t with
            | Some p => match ast_of_program ex_of_lit p with
                        | Some (vars, sts) => Some (parse_program decNum vars sts)
                        | None => None
                        end
            | None => None
            end
  | Err _ => None
  end.

(* the AST handed to the parser: qubit operands, then the parameter *)
Example ex_rt_ast :
  match write3 ex_trunc8 ex_anon 2 1 (ex_rt ex_theta_long) with
  | Ok t => match read3 t with Some p => ast_of_program ex_of_lit p | None => None end
  | Err _ => None
  end =
  Some ([mkVar "q" VQubit 2; mkVar "b" VBit 1],
        [ mkAstmt "H" [OIndex "q" [0%Z]];
          mkAstmt "CNOT" [OIndex "q" [0%Z]; OIndex "q" [1%Z]];
          mkAstmt "Rx" [OIndex "q" [1%Z]; OFloat ex_theta];
          mkAstmt "CR" [OIndex "q" [1%Z]; OIndex "q" [0%Z]; OFloat ex_small];
          mkAstmt "CRk" [OIndex "q" [0%Z]; OIndex "q" [1%Z]; OInt 3%Z];
          mkAstmt "measure" [OIndex "b" [0%Z]; OIndex "q" [1%Z]];
          mkAstmt "reset" [OIndex "q" [0%Z]] ]).
Proof. vm_compute. reflexivity. Qed.

(* 1.57079632679 comes back as 1.5707963: the circuit with the rounded angle, numbered 1..7 *)
Example ex_rt_parse :
  ex_chain 2 1 (ex_rt ex_theta_long) =
  Some (Ok (2%Z, 1%Z, renumber 1 (strip_comments (ex_rt ex_theta)))).
Proof. vm_compute. reflexivity. Qed.

Example ex_rt_parse_rebuild :
  ex_chain 2 1 (ex_rt ex_theta_long) =
  Some (Ok (2%Z, 1%Z, renumber 1 (map (rebuild decNum ex_trunc8 ex_of_lit) (strip_comments (ex_rt ex_theta_long))))).
Proof. vm_compute. reflexivity. Qed.

Example ex_rt_not_identity :
  forget_oids (strip_comments (ex_rt ex_theta)) <> forget_oids (strip_comments (ex_rt ex_theta_long)).
Proof. vm_compute. discriminate. Qed.

(* exact parameters: the circuit itself *)
Example ex_rt_parse_exact :
  ex_chain 2 1 (ex_rt ex_theta) = Some (Ok (2%Z, 1%Z, renumber 1 (strip_comments (ex_rt ex_theta)))).
Proof. vm_compute. reflexivity. Qed.

(* what is read back, as instruction names and arguments *)
Example ex_rt_view :
  match ex_chain 2 1 (ex_rt ex_theta_long) with
  | Some (Ok (_, _, ir')) => map (fun s => (rt_oid s, rt_instr s, rt_args s)) ir'
  | _ => []
  end =
  [ (Some 1%positive, (0%nat, Some "H"), Some [AQ 0%Z]);
    (Some 2%positive, (0%nat, Some "CNOT"), Some [AQ 0%Z; AQ 1%Z]);
    (Some 3%positive, (0%nat, Some "Rx"), Some [AQ 1%Z; AF ex_theta]);
    (Some 4%positive, (0%nat, Some "CR"), Some [AQ 1%Z; AQ 0%Z; AF ex_small]);
    (Some 5%positive, (0%nat, Some "CRk"), Some [AQ 0%Z; AQ 1%Z; AI 3%Z]);
    (Some 6%positive, (1%nat, Some "measure"), Some [AQ 1%Z; AB 0%Z]);
    (Some 7%positive, (2%nat, Some "reset"), Some [AQ 0%Z]) ].
Proof. vm_compute. reflexivity. Qed.

(* the hypotheses of the theorems hold for these circuits: not vacuous *)
Lemma ex_mk_good o name (args : list (arg dec)) :
  is_comment (ex_mk o name args) = false ->
  ident_ok name = true -> Forall (arg_ok ex_trunc8) args -> qubit_ids args <> [] ->
  stmt_ok ex_trunc8 (ex_mk o name args) /\ rt_coherent decNum (ex_mk o name args).
Proof.
  unfold ex_mk. destruct (default_gate decNum name args) as [[g gi]|] eqn:E; [|discriminate].
  intros _ Hn Ha Hq. pose proof (default_gate_ginfo decNum _ _ _ _ E) as ->. split.
  - cbn [stmt_ok]. exists name, args. repeat split; auto.
  - cbn [rt_coherent]. exists name, args. repeat split. exact E.
Qed.

Lemma ex_rt_hyps (theta : dec) : wf_dec (ex_trunc8 theta) -> dec_finite (ex_trunc8 theta) ->
  writable ex_trunc8 (ex_rt theta) /\ Forall (rt_coherent decNum) (ex_rt theta) /\ bits_declared 1 (ex_rt theta).
Proof.
  intros Hw Hf.
  assert (S : wf_dec (ex_trunc8 ex_small) /\ dec_finite (ex_trunc8 ex_small)).
  { split; [|exact I]. cbn. repeat split; auto. repeat constructor; unfold le9; lia. }
  assert (G : forall o name args, is_comment (ex_mk o name args) = false ->
              ident_ok name = true -> Forall (arg_ok ex_trunc8) args -> qubit_ids args <> [] ->
              (stmt_ok ex_trunc8 (ex_mk o name args) /\ rt_coherent decNum (ex_mk o name args)) /\
              needs_bits 1 (ex_mk o name args)).
  { intros o name args H1 H2 H3 H4. split; [now apply ex_mk_good|].
    unfold ex_mk in *. destruct (default_gate decNum name args) as [[g gi]|]; exact I. }
  assert (A : Forall (fun s => (stmt_ok ex_trunc8 s /\ rt_coherent decNum s) /\ needs_bits 1 s) (ex_rt theta)).
  { unfold ex_rt. repeat apply Forall_cons; try apply Forall_nil.
    - repeat split.
    - apply G; [reflexivity|reflexivity| |discriminate]. repeat (apply Forall_cons; [cbn [arg_ok]; lia|]); apply Forall_nil.
    - apply G; [reflexivity|reflexivity| |discriminate]. repeat (apply Forall_cons; [cbn [arg_ok]; lia|]); apply Forall_nil.
    - apply G; [reflexivity|reflexivity| |discriminate]. repeat (apply Forall_cons; [cbn [arg_ok]; try lia; auto|]); apply Forall_nil.
    - apply G; [reflexivity|reflexivity| |discriminate]. repeat (apply Forall_cons; [cbn [arg_ok]; try lia; try apply S|]); apply Forall_nil.
    - apply G; [reflexivity|reflexivity| |discriminate]. repeat (apply Forall_cons; [cbn [arg_ok]; lia|]); apply Forall_nil.
    - split; [split|cbn [needs_bits]; lia].
      + cbn [stmt_ok]. exists "measure", 1%Z, 0%Z, []. repeat split; try reflexivity; lia.
      + cbn [rt_coherent]. exists "measure". repeat split.
    - split; [split|exact I].
      + cbn [stmt_ok]. exists "reset", 0%Z, []. repeat split; try reflexivity; lia.
      + reflexivity. }
  unfold writable, bits_declared. rewrite !Forall_forall in *. repeat split; intros s Hs; apply (A s Hs).
Qed.

Lemma ex_theta_long_ok : wf_dec (ex_trunc8 ex_theta_long) /\ dec_finite (ex_trunc8 ex_theta_long).
Proof. split; [|exact I]. cbn. repeat split; auto. repeat constructor; unfold le9; lia. Qed.

Lemma ex_theta_ok : wf_dec (ex_trunc8 ex_theta) /\ dec_finite (ex_trunc8 ex_theta).
Proof. exact ex_theta_long_ok. Qed.

(* the general theorem applied to the example *)
Example ex_rt_by_theorem (text : string) (p : rprogram) :
  write3 ex_trunc8 ex_anon 2 1 (ex_rt ex_theta_long) = Ok text -> read3 text = Some p ->
  exists vars sts,
    ast_of_program ex_of_lit p = Some (vars, sts) /\
    parse_program decNum vars sts
    = Ok (2%Z, 1%Z, renumber 1 (map (rebuild decNum ex_trunc8 ex_of_lit) (strip_comments (ex_rt ex_theta_long)))).
Proof.
  intros Hw Hr. destruct (ex_rt_hyps ex_theta_long) as (H1 & H2 & H3); try apply ex_theta_long_ok.
  apply (parse_read_write decNum ex_trunc8 ex_anon ex_of_lit 2 1 _ text p Hw); auto; lia.
Qed.

Lemma ex_rt_exact : exact_params ex_trunc8 ex_of_lit (ex_rt ex_theta).
Proof. unfold exact_params, ex_rt. repeat constructor. Qed.

Example ex_rt_exact_by_corollary (text : string) (p : rprogram) :
  write3 ex_trunc8 ex_anon 2 1 (ex_rt ex_theta) = Ok text -> read3 text = Some p ->
  exists vars sts ir',
    ast_of_program ex_of_lit p = Some (vars, sts) /\
    parse_program decNum vars sts = Ok (2%Z, 1%Z, ir') /\
    ir' = renumber 1 (strip_comments (ex_rt ex_theta)) /\
    same_modulo_oid ir' (strip_comments (ex_rt ex_theta)).
Proof.
  intros Hw Hr. destruct (ex_rt_hyps ex_theta) as (H1 & H2 & H3); try apply ex_theta_ok.
  apply (parse_read_write_exact_params decNum ex_trunc8 ex_anon ex_of_lit 2 1 _ text p Hw); auto; try lia.
  exact ex_rt_exact.
Qed.

(* [bits_declared] is needed: with an empty bit register the writer omits the
   declaration and the written measure refers to an undeclared variable (the
   parser's "received argument is not a (qu)bit"; libqasm itself refuses the
   text earlier) *)
Definition ex_nobits : list (stmt dec) :=
  [ SMeasure 1 0%Z 0%Z ex_zaxis (mkGinfo (Some "measure") (Some [AQ 0%Z; AB 0%Z])) ].

Theorem parse_read_write_no_bits_refuted :
  exists (ir : list (stmt dec)) text p vars sts,
    write3 ex_trunc8 ex_anon 1 0 ir = Ok text /\
    writable ex_trunc8 ir /\ Forall (rt_coherent decNum) ir /\ ~ bits_declared 0 ir /\
    read3 text = Some p /\ ast_of_program ex_of_lit p = Some (vars, sts) /\
    parse_program decNum vars sts = Err EType.
Proof.
  exists ex_nobits. eexists. eexists. eexists. eexists.
  split; [vm_compute; reflexivity|]. split; [|split; [|split; [|split; [vm_compute; reflexivity|split; [vm_compute; reflexivity|vm_compute; reflexivity]]]]].
  - constructor; [|constructor]. cbn [stmt_ok]. exists "measure", 0%Z, 0%Z, []. repeat split; try reflexivity; lia.
  - constructor; [|constructor]. cbn [rt_coherent]. exists "measure". repeat split.
  - intros H. inversion H as [|? ? H1 _]; subst. cbn [needs_bits] in H1. lia.
Qed.

(* a line the reader cannot classify (here an anonymous gate) has no AST: libqasm refuses the text *)
Example ex_raw_refused :
  match write3 (fun x => x) ex_anon 1 0 ex_circuit3 with
  | Ok t => match read3 t with Some p => ast_of_program ex_of_lit p | None => None end
  | Err _ => None
  end = None.
Proof. vm_compute. reflexivity. Qed.

Print Assumptions parse_read_write.
Print Assumptions parse_read_write_modulo_oids.
Print Assumptions parse_read_write_statementwise.
Print Assumptions parse_read_write_exact_params.
Print Assumptions parse_read_write_identity.
Print Assumptions parse_program_rt_coherent.
Print Assumptions line_parse.
Print Assumptions round_real_Q.
Print Assumptions parse_read_write_no_bits_refuted.
Print Assumptions ex_rt_by_theorem.
Print Assumptions kraus_forget_oids.
Print Assumptions parse_read_write_same_operation_rounded.
Print Assumptions parse_read_write_same_operation.
