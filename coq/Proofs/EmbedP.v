(* EmbedP.v — a gate acts on its own qubits and nowhere else; relabelling
   qubits is conjugation by the qubit permutation; reindexing erases the
   actual indices.

   Part C (any T, any N : Num T) — index erasure (C19):
       [reindex_gate_relabel], [reindexed_matrix_relabel],
       [check_replacement_relabel], [compare_gates_ord_relabel],
       [compare_gates_relabel], [gate_eq_relabel] (f injective on the indices
       and qubits involved); [reindexed_matrix_dim], [check_replacement_dim];
       [reindex_gate_spec] (what the reindexed gate is);
       [reindex_gate_relabel_indices_only_refuted] (injectivity on the index
       list alone is not enough).
   Part L — the two entry lemmas everything else follows from
       [get_matrix_local(_gen)]     entries between indices that differ outside
                                    the gate's qubits are zero;
       [get_matrix_transport(_gen)] entries only depend on the bits at the
                                    gate's qubits, wherever an injective
                                    relabelling puts them (registers n, n').
       The [_gen] versions hold for any T under [leaves_ok NT g]: either the
       rotations of NT are bitwise-local ([bsr_bitwise], a ring-law fact, true
       at the reals: [bsr_bitwise_R]) or g has no rotation leaf ([bsr_free]).
   Part B — relabelling = conjugation by the permutation (C03):
       [get_matrix_relabel] (RNum), [get_matrix_relabel_gen],
       [get_matrix_relabel_bsr_free] (any T), [get_matrix_relabel_ok],
       [get_matrix_relabel_ok_iff], [get_matrix_remap_ok_iff] (any T),
       [get_matrix_remap] (mapping lists of the mapper pass);
       lists of gates [gates_matrix_relabel]; matrix form M' = P M P^T
       [get_matrix_relabel_PMPt], [gates_matrix_relabel_PMPt] (RNum).
   Part A — one bitwise entry formula for every gate kind:
       [get_matrix_embed] (RNum), [get_matrix_embed_gen],
       [get_matrix_embed_bsr_free], [get_matrix_embed_ctrl_gen] (any T),
       [get_matrix_embed_ok] (any T), [get_matrix_embed_own],
       [get_matrix_embed_bsr], [get_matrix_embed_ctrl], [get_matrix_embed_mat],
       [get_matrix_embed_reindexed]; lists of gates [gates_matrix_embed],
       [reindexed_matrix_embed], [check_replacement_embeds] (RNum).
   Matrix indices are naturals; bit b of index r is [N.testbit (N.of_nat r) b]. *)
From Coq Require Import Reals ZArith NArith List Bool Lia Arith.
Import ListNotations.
From OSQ Require Import Num IR Bits Construct Matrix Check Remap BitsP RNum MatrixP RemapP.
Close Scope N_scope.
Close Scope R_scope.
Open Scope nat_scope.

(* ================================================================== *)
(* injectivity on a list, and the boolean set helpers under relabelling *)

Definition inj_on (f : Z -> Z) (l : list Z) : Prop :=
  forall x y, In x l -> In y l -> f x = f y -> x = y.

Lemma inj_on_incl f l l' : incl l' l -> inj_on f l -> inj_on f l'.
Proof. intros Hi H x y Hx Hy. apply H; now apply Hi. Qed.

Lemma inj_on_app_l f a b : inj_on f (a ++ b) -> inj_on f a.
Proof. apply inj_on_incl. apply incl_appl, incl_refl. Qed.

Lemma inj_on_app_r f a b : inj_on f (a ++ b) -> inj_on f b.
Proof. apply inj_on_incl. apply incl_appr, incl_refl. Qed.

Lemma inj_on_global f l : (forall x y, f x = f y -> x = y) -> inj_on f l.
Proof. intros H x y _ _. apply H. Qed.

Lemma zindex_map_inj f x l : inj_on f (x :: l) -> zindex (f x) (map f l) = zindex x l.
Proof.
  induction l as [|y l IH]; intros Hinj; cbn [map zindex]; [reflexivity|].
  destruct (Z.eqb_spec x y) as [->|Hxy].
  - now rewrite Z.eqb_refl.
  - assert (Hf : f x <> f y).
    { intros E. apply Hxy. apply Hinj; [now left|right; now left|exact E]. }
    apply Z.eqb_neq in Hf. rewrite Hf. rewrite IH; [reflexivity|].
    eapply inj_on_incl; [|exact Hinj]. intros z [<-|Hz]; [now left|right; now right].
Qed.

Lemma zmem_map_inj f x l : inj_on f (x :: l) -> zmem (f x) (map f l) = zmem x l.
Proof.
  induction l as [|y l IH]; intros Hinj; cbn [map zmem]; [reflexivity|].
  rewrite IH.
  2:{ eapply inj_on_incl; [|exact Hinj]. intros z [<-|Hz]; [now left|right; now right]. }
  f_equal. destruct (Z.eqb_spec x y) as [->|Hxy]; [apply Z.eqb_refl|].
  apply Z.eqb_neq. intros E. apply Hxy. apply Hinj; [now left|right; now left|exact E].
Qed.

Lemma zsubset_map_inj f a b : inj_on f (a ++ b) -> zsubset (map f a) (map f b) = zsubset a b.
Proof.
  unfold zsubset. induction a as [|x a IH]; intros Hinj; cbn [map forallb]; [reflexivity|].
  rewrite IH.
  2:{ eapply inj_on_incl; [|exact Hinj]. intros z Hz. now right. }
  f_equal. apply zmem_map_inj. eapply inj_on_incl; [|exact Hinj].
  intros z [<-|Hz]; [now left|]. right. apply in_or_app. now right.
Qed.

Lemma zdedup_map_inj f l : inj_on f l -> zdedup (map f l) = map f (zdedup l).
Proof.
  induction l as [|x l IH]; intros Hinj; cbn [map zdedup]; [reflexivity|].
  rewrite (zmem_map_inj f x l Hinj).
  assert (Hl : inj_on f l) by (eapply inj_on_incl; [|exact Hinj]; intros z Hz; now right).
  destruct (zmem x l); cbn [map]; now rewrite IH.
Qed.

Lemma zdedup_incl l : incl (zdedup l) l.
Proof.
  induction l as [|x l IH]; cbn [zdedup]; [apply incl_refl|].
  destruct (zmem x l).
  - intros z Hz. right. now apply IH.
  - intros z [<-|Hz]; [now left|right; now apply IH].
Qed.

Lemma znodup_map_inj f l : inj_on f l -> znodup (map f l) = znodup l.
Proof.
  induction l as [|x l IH]; intros Hinj; cbn [map znodup]; [reflexivity|].
  rewrite (zmem_map_inj f x l Hinj). rewrite IH; [reflexivity|].
  eapply inj_on_incl; [|exact Hinj]. intros z Hz. now right.
Qed.

(* all positions at once (the loop of the matrix-gate case of the reindexer) *)
Fixpoint zindex_all (indices l : list Z) : option (list Z) :=
  match l with
  | [] => Some []
  | q :: l' => match zindex q indices with
               | None => None
               | Some i => option_map (cons i) (zindex_all indices l')
               end
  end.

Lemma zindex_all_map_inj f indices l :
  inj_on f (indices ++ l) -> zindex_all (map f indices) (map f l) = zindex_all indices l.
Proof.
  induction l as [|q l IH]; intros Hinj; cbn [map zindex_all]; [reflexivity|].
  rewrite zindex_map_inj.
  2:{ eapply inj_on_incl; [|exact Hinj]. intros z [<-|Hz]; apply in_or_app; [right; now left|now left]. }
  rewrite IH; [reflexivity|].
  eapply inj_on_incl; [|exact Hinj]. intros z Hz. apply in_app_or in Hz. apply in_or_app.
  destruct Hz as [Hz|Hz]; [now left|right; now right].
Qed.

(* ================================================================== *)
(* Part C: index erasure, any T                                        *)

Section Erasure.
  Context {T : Type} (N : Num T).
  Notation C := (T * T)%type.
  Notation mat := (list (list C)).

  Lemma gate_qubits_map f (g : gate T) : gate_qubits (map_gate_qubits f g) = map f (gate_qubits g).
  Proof.
    induction g as [q ax a p|c g IH|m ops]; cbn [map_gate_qubits gate_qubits map];
      [reflexivity|now rewrite IH|reflexivity].
  Qed.

  Lemma gates_qubits_map f (gs : list (gate T)) :
    gates_qubits (map (map_gate_qubits f) gs) = map f (gates_qubits gs).
  Proof.
    unfold gates_qubits. induction gs as [|g gs IH]; cbn [map flat_map]; [reflexivity|].
    now rewrite map_app, IH, gate_qubits_map.
  Qed.

  Lemma map_gate_qubits_ext f h (g : gate T) :
    (forall q, In q (gate_qubits g) -> f q = h q) -> map_gate_qubits f g = map_gate_qubits h g.
  Proof.
    induction g as [q ax a p|c g IH|m ops]; intros H; cbn [map_gate_qubits gate_qubits] in *.
    - now rewrite (H q (or_introl eq_refl)).
    - rewrite (H c (or_introl eq_refl)), IH; [reflexivity|]. intros q Hq. apply H. now right.
    - f_equal. now apply map_ext_in.
  Qed.

  Lemma map_gate_qubits_comp f h (g : gate T) :
    map_gate_qubits f (map_gate_qubits h g) = map_gate_qubits (fun q => f (h q)) g.
  Proof.
    induction g as [q ax a p|c g IH|m ops]; cbn [map_gate_qubits];
      [reflexivity|now rewrite IH|now rewrite map_map].
  Qed.

  Lemma map_gate_qubits_id (g : gate T) : map_gate_qubits (fun q => q) g = g.
  Proof.
    induction g as [q ax a p|c g IH|m ops]; cbn [map_gate_qubits];
      [reflexivity|now rewrite IH|now rewrite map_id].
  Qed.

  (* the loop of the matrix-gate case, named *)
  Definition reindex_ops (indices : list Z) (m : mat) : list Z -> list Z -> result (gate T) :=
    fix go (l acc : list Z) : result (gate T) :=
      match l with
      | [] => mk_mat m (List.rev acc)
      | q :: l' => match zindex q indices with
                   | None => Err EValue
                   | Some i => go l' (i :: acc)
                   end
      end.

  Lemma reindex_gate_mat indices m ops :
    reindex_gate N indices (Mat m ops) = reindex_ops indices m ops [].
  Proof. reflexivity. Qed.

  Lemma reindex_ops_all indices m l : forall acc,
    reindex_ops indices m l acc =
    match zindex_all indices l with
    | None => Err EValue
    | Some is => mk_mat m (List.rev acc ++ is)
    end.
  Proof.
    induction l as [|q l IH]; intros acc; cbn [zindex_all]; unfold reindex_ops; fold (reindex_ops indices m).
    - now rewrite app_nil_r.
    - destruct (zindex q indices) as [i|]; [|reflexivity]. rewrite IH.
      destruct (zindex_all indices l) as [is|]; cbn [option_map]; [|reflexivity].
      cbn [List.rev]. now rewrite <- app_assoc.
  Qed.

  (* C19, one gate: the reindexed gate does not depend on the actual indices *)
  Theorem reindex_gate_relabel f indices (g : gate T) :
    inj_on f (indices ++ gate_qubits g) ->
    reindex_gate N (map f indices) (map_gate_qubits f g) = reindex_gate N indices g.
  Proof.
    induction g as [q ax a p|c g IH|m ops]; intros Hinj; cbn [gate_qubits] in Hinj.
    - cbn [map_gate_qubits reindex_gate]. rewrite zindex_map_inj; [reflexivity|].
      eapply inj_on_incl; [|exact Hinj].
      intros z [<-|Hz]; apply in_or_app; [right; now left|now left].
    - cbn [map_gate_qubits reindex_gate]. rewrite zindex_map_inj.
      2:{ eapply inj_on_incl; [|exact Hinj].
          intros z [<-|Hz]; apply in_or_app; [right; now left|now left]. }
      rewrite IH; [reflexivity|].
      eapply inj_on_incl; [|exact Hinj]. intros z Hz. apply in_app_or in Hz. apply in_or_app.
      destruct Hz as [Hz|Hz]; [now left|right; now right].
    - cbn [map_gate_qubits]. rewrite !reindex_gate_mat, !reindex_ops_all.
      now rewrite zindex_all_map_inj.
  Qed.

  Lemma reindex_gates_relabel f indices (gs : list (gate T)) :
    inj_on f (indices ++ gates_qubits gs) ->
    reindex_gates N (map f indices) (map (map_gate_qubits f) gs) = reindex_gates N indices gs.
  Proof.
    induction gs as [|g gs IH]; intros Hinj; cbn [map reindex_gates]; [reflexivity|].
    unfold gates_qubits in Hinj. cbn [flat_map] in Hinj. fold (gates_qubits gs) in Hinj.
    rewrite reindex_gate_relabel.
    2:{ eapply inj_on_incl; [|exact Hinj]. intros z Hz. apply in_app_or in Hz. apply in_or_app.
        destruct Hz as [Hz|Hz]; [now left|right; apply in_or_app; now left]. }
    rewrite IH; [reflexivity|].
    eapply inj_on_incl; [|exact Hinj]. intros z Hz. apply in_app_or in Hz. apply in_or_app.
    destruct Hz as [Hz|Hz]; [now left|right; apply in_or_app; now right].
  Qed.

  (* C19: the matrix of a list of reindexed gates *)
  Theorem reindexed_matrix_relabel f indices (gs : list (gate T)) :
    inj_on f (indices ++ gates_qubits gs) ->
    reindexed_matrix N (map f indices) (map (map_gate_qubits f) gs) = reindexed_matrix N indices gs.
  Proof.
    intros Hinj. unfold reindexed_matrix. rewrite reindex_gates_relabel by exact Hinj.
    now rewrite map_length.
  Qed.

  (* C19: check_gate_replacement *)
  Theorem check_replacement_relabel f (g : gate T) (repl : list (gate T)) :
    inj_on f (gate_qubits g ++ gates_qubits repl) ->
    check_replacement N (map_gate_qubits f g) (map (map_gate_qubits f) repl) =
    check_replacement N g repl.
  Proof.
    intros Hinj. unfold check_replacement.
    rewrite gate_qubits_map, gates_qubits_map.
    rewrite zsubset_map_inj.
    2:{ eapply inj_on_incl; [|exact Hinj]. intros z Hz. apply in_app_or in Hz. apply in_or_app. tauto. }
    change [map_gate_qubits f g] with (map (map_gate_qubits f) [g]).
    rewrite !reindexed_matrix_relabel; [reflexivity|exact Hinj|].
    unfold gates_qubits. cbn [flat_map]. rewrite app_nil_r.
    eapply inj_on_incl; [|exact Hinj]. intros z Hz. apply in_app_or in Hz. apply in_or_app. tauto.
  Qed.

  (* C19: compare_gates with an explicit order of the union *)
  Theorem compare_gates_ord_relabel f order (g1 g2 : gate T) :
    inj_on f (order ++ gate_qubits g1 ++ gate_qubits g2) ->
    compare_gates_ord N (map f order) (map_gate_qubits f g1) (map_gate_qubits f g2) =
    compare_gates_ord N order g1 g2.
  Proof.
    intros Hinj. unfold compare_gates_ord.
    change [map_gate_qubits f g1] with (map (map_gate_qubits f) [g1]).
    change [map_gate_qubits f g2] with (map (map_gate_qubits f) [g2]).
    rewrite !reindexed_matrix_relabel; [reflexivity| |];
      unfold gates_qubits; cbn [flat_map]; rewrite app_nil_r;
      (eapply inj_on_incl; [|exact Hinj]); intros z Hz; apply in_app_or in Hz; apply in_or_app;
      (destruct Hz as [Hz|Hz]; [now left|right; apply in_or_app; tauto]).
  Qed.

  Lemma union_order_map f (g1 g2 : gate T) :
    inj_on f (gate_qubits g1 ++ gate_qubits g2) ->
    union_order (map_gate_qubits f g1) (map_gate_qubits f g2) = map f (union_order g1 g2).
  Proof.
    intros Hinj. unfold union_order. rewrite !gate_qubits_map, <- map_app.
    now apply zdedup_map_inj.
  Qed.

  (* compare_gates itself (order = first occurrences in the concatenation) *)
  Theorem compare_gates_relabel f (g1 g2 : gate T) :
    inj_on f (gate_qubits g1 ++ gate_qubits g2) ->
    compare_gates N (map_gate_qubits f g1) (map_gate_qubits f g2) = compare_gates N g1 g2.
  Proof.
    intros Hinj. unfold compare_gates. rewrite union_order_map by exact Hinj.
    apply compare_gates_ord_relabel.
    eapply inj_on_incl; [|exact Hinj]. intros z Hz. apply in_app_or in Hz.
    destruct Hz as [Hz|Hz]; [|exact Hz]. unfold union_order in Hz. now apply zdedup_incl in Hz.
  Qed.

  (* g1 == g2 as Python dispatches it *)
  Theorem gate_eq_relabel f (g1 g2 : gate T) :
    inj_on f (gate_qubits g1 ++ gate_qubits g2) ->
    gate_eq N (map_gate_qubits f g1) (map_gate_qubits f g2) = gate_eq N g1 g2.
  Proof.
    intros Hinj.
    destruct g1 as [q1 ax1 a1 p1|c1 g1|m1 ops1].
    - destruct g2 as [q2 ax2 a2 p2|c2 g2|m2 ops2].
      + cbn [map_gate_qubits gate_eq]. unfold bsr_eq. f_equal.
        replace (Z.eqb (f q1) (f q2)) with (Z.eqb q1 q2); [reflexivity|].
        destruct (Z.eqb_spec q1 q2) as [->|Hne]; [now rewrite Z.eqb_refl|].
        symmetry. apply Z.eqb_neq. intros E. apply Hne.
        apply Hinj; cbn [gate_qubits app In]; auto.
      + change (gate_eq N (map_gate_qubits f (BSR q1 ax1 a1 p1)) (map_gate_qubits f (Ctrl c2 g2)))
          with (compare_gates N (map_gate_qubits f (BSR q1 ax1 a1 p1)) (map_gate_qubits f (Ctrl c2 g2))).
        change (gate_eq N (BSR q1 ax1 a1 p1) (Ctrl c2 g2)) with (compare_gates N (BSR q1 ax1 a1 p1) (Ctrl c2 g2)).
        now apply compare_gates_relabel.
      + change (gate_eq N (map_gate_qubits f (BSR q1 ax1 a1 p1)) (map_gate_qubits f (Mat m2 ops2)))
          with (compare_gates N (map_gate_qubits f (BSR q1 ax1 a1 p1)) (map_gate_qubits f (Mat m2 ops2))).
        change (gate_eq N (BSR q1 ax1 a1 p1) (Mat m2 ops2)) with (compare_gates N (BSR q1 ax1 a1 p1) (Mat m2 ops2)).
        now apply compare_gates_relabel.
    - change (gate_eq N (map_gate_qubits f (Ctrl c1 g1)) (map_gate_qubits f g2))
        with (compare_gates N (map_gate_qubits f (Ctrl c1 g1)) (map_gate_qubits f g2)).
      change (gate_eq N (Ctrl c1 g1) g2) with (compare_gates N (Ctrl c1 g1) g2).
      now apply compare_gates_relabel.
    - change (gate_eq N (map_gate_qubits f (Mat m1 ops1)) (map_gate_qubits f g2))
        with (compare_gates N (map_gate_qubits f (Mat m1 ops1)) (map_gate_qubits f g2)).
      change (gate_eq N (Mat m1 ops1) g2) with (compare_gates N (Mat m1 ops1) g2).
      now apply compare_gates_relabel.
  Qed.

  (* ---- the dimension follows the index list, never the register ---- *)

  Lemma zpow2_of_nat k : zpow2 (Z.of_nat k) = 2 ^ k.
  Proof. unfold zpow2. now rewrite Nat2Z.id. Qed.

  Theorem reindexed_matrix_dim indices (gs : list (gate T)) M :
    reindexed_matrix N indices gs = Ok M -> wf_mat (2 ^ length indices) M.
  Proof.
    unfold reindexed_matrix. destruct (reindex_gates N indices gs) as [gs'|e]; [|discriminate].
    unfold gates_matrix. intros H. apply circuit_matrix_wf in H.
    now rewrite zpow2_of_nat in H.
  Qed.

  (* for check_gate_replacement: 2^(number of operands of the replaced gate) *)
  Theorem check_replacement_dim (g : gate T) repl u :
    check_replacement N g repl = Ok u ->
    exists A B, reindexed_matrix N (gate_qubits g) [g] = Ok A /\
                reindexed_matrix N (gate_qubits g) repl = Ok B /\
                wf_mat (2 ^ length (gate_qubits g)) A /\
                wf_mat (2 ^ length (gate_qubits g)) B /\
                equiv_up_to_phase N A B = Ok true.
  Proof.
    unfold check_replacement. destruct (negb _); [discriminate|].
    destruct (reindexed_matrix N (gate_qubits g) [g]) as [A|e] eqn:EA; [|discriminate].
    destruct (reindexed_matrix N (gate_qubits g) repl) as [B|e] eqn:EB; [|discriminate].
    destruct (equiv_up_to_phase N A B) as [[|]|e] eqn:EE; try discriminate.
    intros _. exists A, B. split; [reflexivity|]. split; [reflexivity|].
    split; [exact (reindexed_matrix_dim _ _ _ EA)|].
    split; [exact (reindexed_matrix_dim _ _ _ EB)|exact EE].
  Qed.
End Erasure.

Print Assumptions reindex_gate_relabel.
Print Assumptions reindexed_matrix_relabel.
Print Assumptions check_replacement_relabel.
Print Assumptions compare_gates_ord_relabel.
Print Assumptions compare_gates_relabel.
Print Assumptions gate_eq_relabel.
Print Assumptions reindexed_matrix_dim.
Print Assumptions check_replacement_dim.

(* ================================================================== *)
(* bit facts about agreement outside a list of positions               *)

Lemma agreeb_mono qs qs' r c : incl qs qs' -> agreeb qs r c = true -> agreeb qs' r c = true.
Proof.
  intros Hi H. apply agreeb_spec. intros b Hb.
  apply (proj1 (agreeb_spec qs r c) H). intros Hin. apply Hb. now apply Hi.
Qed.

Lemma agreeb_ext qs qs' r c : (forall b, In b qs <-> In b qs') -> agreeb qs r c = agreeb qs' r c.
Proof.
  intros H. apply eq_true_iff_eq. split; apply agreeb_mono; intros b Hb; now apply H.
Qed.

Lemma agreeb_false_neq qs r c : agreeb qs r c = false -> r <> c.
Proof. intros H E. subst c. now rewrite agreeb_refl in H. Qed.

Lemma agreeb_sym qs r c : agreeb qs r c = agreeb qs c r.
Proof.
  apply eq_true_iff_eq. rewrite !agreeb_spec. split; intros H b Hb; symmetry; now apply H.
Qed.

Lemma agreeb_cons_iff q qs r c :
  agreeb (q :: qs) r c = true ->
  (agreeb qs r c = true <-> In q qs \/ N.testbit r q = N.testbit c q).
Proof.
  intros H. rewrite agreeb_spec in H. split.
  - intros H'. destruct (in_dec N.eq_dec q qs) as [Hi|Hn]; [now left|right].
    now apply (proj1 (agreeb_spec qs r c) H').
  - intros Hor. apply agreeb_spec. intros b Hb. destruct (N.eq_dec b q) as [->|Hne].
    + destruct Hor as [Hi|He]; [contradiction|exact He].
    + apply H. intros [E|Hi]; [apply Hne; now symmetry|contradiction].
Qed.

Lemma in_map_toN (l : list Z) x :
  (forall q, In q l -> (0 <= q)%Z) -> (0 <= x)%Z -> (In (Z.to_N x) (map Z.to_N l) <-> In x l).
Proof.
  intros Hl Hx. rewrite in_map_iff. split.
  - intros [y [E Hy]]. pose proof (Hl y Hy). assert (y = x) by lia. now subst.
  - intros H. now exists x.
Qed.

Lemma rev_ops_In ops b : In b (rev_ops ops) <-> In b (map Z.to_N ops).
Proof.
  unfold rev_ops. rewrite !in_map_iff. split; intros [z [E Hz]]; exists z; (split; [exact E|]).
  - now rewrite <- in_rev in Hz.
  - now rewrite <- in_rev.
Qed.

(* the bits at the qubits [qs] of r sit at the qubits [f qs] of r' *)
Definition bits_follow (f : Z -> Z) (qs : list Z) (r r' : N) : Prop :=
  forall q, In q qs -> N.testbit r' (Z.to_N (f q)) = N.testbit r (Z.to_N q).

Lemma bits_follow_incl f qs qs' r r' : incl qs' qs -> bits_follow f qs r r' -> bits_follow f qs' r r'.
Proof. intros Hi H q Hq. apply H. now apply Hi. Qed.

Lemma bits_transport_eq f qs r c r' c' :
  bits_follow f qs r r' -> bits_follow f qs c c' ->
  agreeb (map Z.to_N qs) r c = true -> agreeb (map Z.to_N (map f qs)) r' c' = true ->
  (r = c <-> r' = c').
Proof.
  intros Hr Hc Ha Ha'. split; intros E; apply N.bits_inj; intros b.
  - destruct (in_dec N.eq_dec b (map Z.to_N (map f qs))) as [Hi|Hn].
    + apply in_map_iff in Hi. destruct Hi as [y [<- Hy]]. apply in_map_iff in Hy.
      destruct Hy as [q [<- Hq]]. rewrite (Hr q Hq), (Hc q Hq). now subst.
    + now apply (proj1 (agreeb_spec _ _ _) Ha').
  - destruct (in_dec N.eq_dec b (map Z.to_N qs)) as [Hi|Hn].
    + apply in_map_iff in Hi. destruct Hi as [q [<- Hq]].
      rewrite <- (Hr q Hq), <- (Hc q Hq). now subst.
    + now apply (proj1 (agreeb_spec _ _ _) Ha).
Qed.

(* ================================================================== *)
(* inversions of get_matrix, any T                                     *)

Definition qsN {T} (g : gate T) : list N := map Z.to_N (gate_qubits g).

(* the operand lists of the matrix gates inside g have no repetition *)
Fixpoint mat_ops_nodup {T} (g : gate T) : Prop :=
  match g with
  | BSR _ _ _ _ => True
  | Ctrl _ g' => mat_ops_nodup g'
  | Mat _ ops => NoDup ops
  end.

Lemma NoDup_app_r {A} (l1 l2 : list A) : NoDup (l1 ++ l2) -> NoDup l2.
Proof. induction l1 as [|a l1 IH]; cbn [app]; [auto|]. intros H. inversion H. auto. Qed.

Lemma nodup_mat_ops_nodup {T} (g : gate T) : NoDup (gate_qubits g) -> mat_ops_nodup g.
Proof.
  induction g as [q ax a p|c g IH|m ops]; cbn [gate_qubits mat_ops_nodup]; intros H; auto.
  inversion H. auto.
Qed.

Lemma mat_ops_nodup_map {T} f (g : gate T) :
  inj_on f (gate_qubits g) -> mat_ops_nodup g -> mat_ops_nodup (map_gate_qubits f g).
Proof.
  induction g as [q ax a p|c g IH|m ops]; cbn [gate_qubits mat_ops_nodup map_gate_qubits]; intros Hinj H; auto.
  - apply IH; [|exact H]. eapply inj_on_incl; [|exact Hinj]. intros z Hz. now right.
  - now apply NoDup_map_inj_in.
Qed.

Section Inversion.
  Context {T : Type} (N : Num T).
  Notation C := (T * T)%type.
  Notation mat := (list (list C)).

  Lemma get_matrix_ctrl_inv n c (g : gate T) (M : mat) :
    get_matrix N n (Ctrl c g) = Ok M ->
    (0 <= c < n)%Z /\ exists M1, get_matrix N n g = Ok M1 /\ M = ctrl_matrix N c M1.
  Proof.
    cbn [get_matrix]. destruct (Z.geb c n) eqn:E1; [discriminate|].
    destruct (get_matrix N n g) as [M1|e]; [|discriminate].
    destruct (Z.ltb c 0) eqn:E2; [discriminate|]. intros H. injection H as <-.
    rewrite Z.geb_leb in E1. apply Z.leb_gt in E1. apply Z.ltb_ge in E2.
    split; [lia|]. exists M1. split; reflexivity.
  Qed.

  Lemma get_matrix_mat_inv n (m : mat) ops (M : mat) :
    get_matrix N n (Mat m ops) = Ok M -> wf_mat (2 ^ length ops) m.
  Proof.
    cbn [get_matrix]. destruct (existsb _ _); [discriminate|].
    fold (mat_shape_ok m (length ops)).
    destruct (mat_shape_ok m (length ops)) eqn:E; [|discriminate].
    intros _. now apply mat_shape_ok_spec.
  Qed.

  Lemma get_matrix_ok_shapes n (g : gate T) : forall M : mat, get_matrix N n g = Ok M -> gate_shapes_ok g.
  Proof.
    induction g as [q ax a p|c g IH|m ops]; intros M HM; cbn [gate_shapes_ok].
    - exact I.
    - destruct (get_matrix_ctrl_inv _ _ _ _ HM) as [_ [M1 [HM1 _]]]. now apply (IH M1).
    - now apply (get_matrix_mat_inv n m ops M).
  Qed.

  (* success of the expansion = indices in range and matrices well-shaped *)
  Theorem get_matrix_ok_iff n (g : gate T) :
    (exists M : mat, get_matrix N n g = Ok M) <->
    (forall q, In q (gate_qubits g) -> (0 <= q < n)%Z) /\ gate_shapes_ok g.
  Proof.
    split.
    - intros [M HM]. split; [exact (get_matrix_ok_range N n g M HM)|exact (get_matrix_ok_shapes n g M HM)].
    - intros [Hq Hs]. destruct (get_matrix_total N n g Hq Hs) as [M [HM _]]. now exists M.
  Qed.

  Lemma gate_shapes_ok_map f (g : gate T) : gate_shapes_ok (map_gate_qubits f g) <-> gate_shapes_ok g.
  Proof.
    induction g as [q ax a p|c g IH|m ops]; cbn [map_gate_qubits gate_shapes_ok]; [tauto|exact IH|].
    now rewrite map_length.
  Qed.
End Inversion.

(* ================================================================== *)
(* Part L: locality and transport of entries, at the real numbers      *)

(* the only place where ring laws enter is the rotation: its n-qubit matrix,
   kron (kron I can1) I, is bitwise-local only if 0*z = 0, 1*z = z.  Everything
   below is proved for any number type whose rotations are bitwise-local
   ([bsr_bitwise], true at the reals) or for gates without rotation leaves *)
Definition bsr_bitwise {T} (NT : Num T) : Prop :=
  forall n q ax a p, (0 <= q < n)%Z ->
    exists M, get_matrix NT n (BSR q ax a p) = Ok M /\ wf_mat (zpow2 n) M /\
      forall r c, r < zpow2 n -> c < zpow2 n ->
        mget NT M r c =
        if agreeb [Z.to_N q] (N.of_nat r) (N.of_nat c)
        then mget NT (can1 NT ax a p)
               (N.to_nat (reduced_ket (N.of_nat r) [Z.to_N q]))
               (N.to_nat (reduced_ket (N.of_nat c) [Z.to_N q]))
        else czero NT.

Lemma bsr_bitwise_R : bsr_bitwise RNum.
Proof. exact get_matrix_bsr_spec_bits. Qed.

Fixpoint bsr_free {T} (g : gate T) : Prop :=
  match g with
  | BSR _ _ _ _ => False
  | Ctrl _ g' => bsr_free g'
  | Mat _ _ => True
  end.

Definition leaves_ok {T} (NT : Num T) (g : gate T) : Prop := bsr_bitwise NT \/ bsr_free g.

Lemma bsr_free_map {T} f (g : gate T) : bsr_free g -> bsr_free (map_gate_qubits f g).
Proof. induction g as [q ax a p|c g IH|m ops]; cbn [bsr_free map_gate_qubits]; auto. Qed.

Lemma leaves_ok_map {T} (NT : Num T) f (g : gate T) : leaves_ok NT g -> leaves_ok NT (map_gate_qubits f g).
Proof. intros [H|H]; [now left|right; now apply bsr_free_map]. Qed.

Lemma leaves_ok_R (g : gate R) : leaves_ok RNum g.
Proof. left. exact bsr_bitwise_R. Qed.

Section LocalGen.
  Context {T : Type} (NT : Num T).
  Notation matT := (list (list (T * T))).
  Notation c0T := (czero NT).

  Lemma qsN_ctrl c (g : gate T) : qsN (Ctrl c g) = Z.to_N c :: qsN g.
  Proof. reflexivity. Qed.

  (* L1: a gate has no entry between two indices that differ outside its qubits *)
  Theorem get_matrix_local_gen n (g : gate T) : leaves_ok NT g -> forall (M : matT) r c,
    get_matrix NT n g = Ok M -> mat_ops_nodup g -> r < zpow2 n -> c < zpow2 n ->
    agreeb (qsN g) (N.of_nat r) (N.of_nat c) = false -> mget NT M r c = c0T.
  Proof.
    induction g as [q ax a p|cq g IH|m ops]; intros Hlv M r c HM Hnd Hr Hc Hag.
    - pose proof (get_matrix_ok_range NT n _ M HM q (or_introl eq_refl)) as Hq.
      destruct Hlv as [Hb|[]].
      destruct (Hb n q ax a p Hq) as [M0 [HM0 [_ Hent]]].
      rewrite HM in HM0. injection HM0 as <-. rewrite (Hent r c Hr Hc).
      unfold qsN in Hag. cbn [gate_qubits map] in Hag. now rewrite Hag.
    - destruct (get_matrix_ctrl_inv NT n cq g M HM) as [Hcq [M1 [HM1 ->]]].
      destruct (get_matrix_wf NT n g M1 HM1) as [Hl _].
      rewrite mget_ctrl_matrix by (rewrite Hl; assumption).
      destruct (N.testbit (N.of_nat c) (Z.to_N cq)).
      + apply (IH Hlv M1 r c HM1 Hnd Hr Hc).
        destruct (agreeb (qsN g) (N.of_nat r) (N.of_nat c)) eqn:E; [|reflexivity]. exfalso.
        rewrite (agreeb_mono (qsN g) (qsN (Ctrl cq g)) _ _) in Hag; [discriminate| |exact E].
        intros b Hb. rewrite qsN_ctrl. now right.
      + apply agreeb_false_neq in Hag.
        destruct (Nat.eqb_spec r c) as [E|_]; [|reflexivity]. exfalso. apply Hag. now rewrite E.
    - cbn [mat_ops_nodup] in Hnd.
      pose proof (get_matrix_ok_range NT n _ M HM) as Hrange. cbn [gate_qubits] in Hrange.
      pose proof (get_matrix_mat_inv NT n m ops M HM) as Hwf.
      destruct (get_matrix_mat_spec NT n m ops Hnd Hrange Hwf) as [M0 [HM0 [_ Hent]]].
      rewrite HM in HM0. injection HM0 as <-. rewrite (Hent r c Hr Hc).
      rewrite (agreeb_ext (rev_ops ops) (qsN (Mat m ops))) by (intros b; apply rev_ops_In).
      now rewrite Hag.
  Qed.

  (* L2: the entries of a gate only depend on the bits at its qubits, wherever
     an injective relabelling [f] puts them, on registers of any sizes n, n' *)
  Theorem get_matrix_transport_gen f n n' (g : gate T) : leaves_ok NT g -> forall (M M' : matT) r c r' c',
    get_matrix NT n g = Ok M -> get_matrix NT n' (map_gate_qubits f g) = Ok M' ->
    mat_ops_nodup g -> inj_on f (gate_qubits g) ->
    r < zpow2 n -> c < zpow2 n -> r' < zpow2 n' -> c' < zpow2 n' ->
    bits_follow f (gate_qubits g) (N.of_nat r) (N.of_nat r') ->
    bits_follow f (gate_qubits g) (N.of_nat c) (N.of_nat c') ->
    agreeb (qsN g) (N.of_nat r) (N.of_nat c) = true ->
    agreeb (qsN (map_gate_qubits f g)) (N.of_nat r') (N.of_nat c') = true ->
    mget NT M r c = mget NT M' r' c'.
  Proof.
    induction g as [q ax a p|cq g IH|m ops];
      intros Hlv M M' r c r' c' HM HM' Hnd Hinj Hr Hc Hr' Hc' Hbr Hbc Hag Hag'.
    - pose proof (get_matrix_ok_range NT n _ M HM q (or_introl eq_refl)) as Hq.
      pose proof (get_matrix_ok_range NT n' _ M' HM' (f q) (or_introl eq_refl)) as Hq'.
      destruct Hlv as [Hb|[]].
      destruct (Hb n q ax a p Hq) as [M0 [HM0 [_ Hent]]].
      rewrite HM in HM0. injection HM0 as <-.
      cbn [map_gate_qubits] in HM'.
      destruct (Hb n' (f q) ax a p Hq') as [M0 [HM0 [_ Hent']]].
      rewrite HM' in HM0. injection HM0 as <-.
      rewrite (Hent r c Hr Hc), (Hent' r' c' Hr' Hc').
      unfold qsN in Hag, Hag'. cbn [map_gate_qubits gate_qubits map] in Hag, Hag'.
      rewrite Hag, Hag'. rewrite !reduced_ket_single.
      rewrite (Hbr q (or_introl eq_refl)), (Hbc q (or_introl eq_refl)). reflexivity.
    - cbn [map_gate_qubits] in HM'.
      destruct (get_matrix_ctrl_inv NT n cq g M HM) as [Hcq [M1 [HM1 ->]]].
      destruct (get_matrix_ctrl_inv NT n' (f cq) _ M' HM') as [Hcq' [M1' [HM1' ->]]].
      destruct (get_matrix_wf NT n g M1 HM1) as [Hl _].
      destruct (get_matrix_wf NT n' _ M1' HM1') as [Hl' _].
      rewrite !mget_ctrl_matrix by (rewrite ?Hl, ?Hl'; assumption).
      assert (Hinj' : inj_on f (gate_qubits g)).
      { eapply inj_on_incl; [|exact Hinj]. intros z Hz. now right. }
      assert (Hbr1 : bits_follow f (gate_qubits g) (N.of_nat r) (N.of_nat r')).
      { eapply bits_follow_incl; [|exact Hbr]. intros z Hz. now right. }
      assert (Hbc1 : bits_follow f (gate_qubits g) (N.of_nat c) (N.of_nat c')).
      { eapply bits_follow_incl; [|exact Hbc]. intros z Hz. now right. }
      rewrite (Hbc cq (or_introl eq_refl)).
      destruct (N.testbit (N.of_nat c) (Z.to_N cq)) eqn:Ecb.
      + assert (E : agreeb (qsN g) (N.of_nat r) (N.of_nat c) =
                    agreeb (qsN (map_gate_qubits f g)) (N.of_nat r') (N.of_nat c')).
        { apply eq_true_iff_eq.
          cbn [map_gate_qubits] in Hag'. rewrite qsN_ctrl in Hag, Hag'.
          rewrite (agreeb_cons_iff _ _ _ _ Hag), (agreeb_cons_iff _ _ _ _ Hag').
          rewrite (Hbr cq (or_introl eq_refl)), (Hbc cq (or_introl eq_refl)).
          assert (Hin : In (Z.to_N cq) (qsN g) <-> In (Z.to_N (f cq)) (qsN (map_gate_qubits f g))).
          { unfold qsN. rewrite gate_qubits_map.
            rewrite in_map_toN;
              [|intros z Hz; apply (get_matrix_ok_range NT n g M1 HM1 z Hz)|lia].
            rewrite in_map_toN;
              [|intros z Hz; rewrite <- gate_qubits_map in Hz;
                apply (get_matrix_ok_range NT n' _ M1' HM1' z Hz)|lia].
            split.
            - intros Hz. now apply in_map.
            - intros Hz. apply in_map_iff in Hz. destruct Hz as [z [Ez Hz]].
              replace cq with z; [exact Hz|].
              apply Hinj; [now right|now left|exact Ez]. }
          rewrite Hin. reflexivity. }
        destruct (agreeb (qsN g) (N.of_nat r) (N.of_nat c)) eqn:E1.
        * apply (IH Hlv M1 M1' r c r' c' HM1 HM1' Hnd Hinj' Hr Hc Hr' Hc' Hbr1 Hbc1 E1). now symmetry.
        * rewrite (get_matrix_local_gen n g Hlv M1 r c HM1 Hnd Hr Hc E1).
          symmetry. apply (get_matrix_local_gen n' _ (leaves_ok_map NT f g Hlv) M1' r' c' HM1'); try assumption.
          -- now apply mat_ops_nodup_map.
          -- now symmetry.
      + assert (Heq : N.of_nat r = N.of_nat c <-> N.of_nat r' = N.of_nat c').
        { apply (bits_transport_eq f (gate_qubits (Ctrl cq g))); try assumption.
          rewrite <- gate_qubits_map. exact Hag'. }
        destruct (Nat.eqb_spec r c) as [E|Hne]; destruct (Nat.eqb_spec r' c') as [E'|Hne']; try reflexivity; exfalso.
        * apply Hne'. apply Nnat.Nat2N.inj. apply Heq. now rewrite E.
        * apply Hne. apply Nnat.Nat2N.inj. apply Heq. now rewrite E'.
    - cbn [map_gate_qubits] in HM'. cbn [mat_ops_nodup] in Hnd. cbn [gate_qubits] in Hinj, Hbr, Hbc.
      pose proof (get_matrix_ok_range NT n _ M HM) as Hrange. cbn [gate_qubits] in Hrange.
      pose proof (get_matrix_ok_range NT n' _ M' HM') as Hrange'. cbn [gate_qubits] in Hrange'.
      pose proof (get_matrix_mat_inv NT n m ops M HM) as Hwf.
      assert (Hnd' : NoDup (map f ops)) by now apply NoDup_map_inj_in.
      assert (Hwf' : wf_mat (2 ^ length (map f ops)) m) by now rewrite map_length.
      destruct (get_matrix_mat_spec NT n m ops Hnd Hrange Hwf) as [M0 [HM0 [_ Hent]]].
      rewrite HM in HM0. injection HM0 as <-.
      destruct (get_matrix_mat_spec NT n' m (map f ops) Hnd' Hrange' Hwf') as [M0 [HM0 [_ Hent']]].
      rewrite HM' in HM0. injection HM0 as <-.
      rewrite (Hent r c Hr Hc), (Hent' r' c' Hr' Hc').
      rewrite (agreeb_ext (rev_ops ops) (qsN (Mat m ops))) by (intros b; apply rev_ops_In).
      rewrite (agreeb_ext (rev_ops (map f ops)) (qsN (Mat m (map f ops)))) by (intros b; apply rev_ops_In).
      cbn [map_gate_qubits] in Hag'. rewrite Hag, Hag'.
      assert (Hred : forall x x', bits_follow f ops x x' ->
                reduced_ket x' (rev_ops (map f ops)) = reduced_ket x (rev_ops ops)).
      { intros x x' Hb. apply N.bits_inj. intros b. rewrite !reduced_ket_spec.
        unfold rev_ops. rewrite <- map_rev, map_map, !nth_error_map.
        destruct (nth_error (rev ops) (N.to_nat b)) as [z|] eqn:Ez; cbn [option_map]; [|reflexivity].
        apply Hb. apply in_rev. eapply nth_error_In. exact Ez. }
      rewrite (Hred _ _ Hbr), (Hred _ _ Hbc). reflexivity.
  Qed.

  (* L3: both at once *)
  Corollary get_matrix_transport_eq_gen f n n' (g : gate T) (M M' : matT) r c r' c' :
    leaves_ok NT g ->
    get_matrix NT n g = Ok M -> get_matrix NT n' (map_gate_qubits f g) = Ok M' ->
    mat_ops_nodup g -> inj_on f (gate_qubits g) ->
    r < zpow2 n -> c < zpow2 n -> r' < zpow2 n' -> c' < zpow2 n' ->
    bits_follow f (gate_qubits g) (N.of_nat r) (N.of_nat r') ->
    bits_follow f (gate_qubits g) (N.of_nat c) (N.of_nat c') ->
    agreeb (qsN g) (N.of_nat r) (N.of_nat c) =
    agreeb (qsN (map_gate_qubits f g)) (N.of_nat r') (N.of_nat c') ->
    mget NT M r c = mget NT M' r' c'.
  Proof.
    intros Hlv HM HM' Hnd Hinj Hr Hc Hr' Hc' Hbr Hbc E.
    destruct (agreeb (qsN g) (N.of_nat r) (N.of_nat c)) eqn:E1.
    - apply (get_matrix_transport_gen f n n' g Hlv); try assumption. now symmetry.
    - rewrite (get_matrix_local_gen n g Hlv M r c HM Hnd Hr Hc E1). symmetry.
      apply (get_matrix_local_gen n' _ (leaves_ok_map NT f g Hlv) M' r' c' HM'); try assumption.
      + now apply mat_ops_nodup_map.
      + now symmetry.
  Qed.
End LocalGen.

(* the same at the real numbers *)
Section LocalR.
  Notation matR := (list (list (R * R))).
  Notation c0R := (czero RNum).

  Theorem get_matrix_local n (g : gate R) (M : matR) r c :
    get_matrix RNum n g = Ok M -> mat_ops_nodup g -> r < zpow2 n -> c < zpow2 n ->
    agreeb (qsN g) (N.of_nat r) (N.of_nat c) = false -> mget RNum M r c = c0R.
  Proof. apply get_matrix_local_gen, leaves_ok_R. Qed.

  Theorem get_matrix_transport f n n' (g : gate R) (M M' : matR) r c r' c' :
    get_matrix RNum n g = Ok M -> get_matrix RNum n' (map_gate_qubits f g) = Ok M' ->
    mat_ops_nodup g -> inj_on f (gate_qubits g) ->
    r < zpow2 n -> c < zpow2 n -> r' < zpow2 n' -> c' < zpow2 n' ->
    bits_follow f (gate_qubits g) (N.of_nat r) (N.of_nat r') ->
    bits_follow f (gate_qubits g) (N.of_nat c) (N.of_nat c') ->
    agreeb (qsN g) (N.of_nat r) (N.of_nat c) = true ->
    agreeb (qsN (map_gate_qubits f g)) (N.of_nat r') (N.of_nat c') = true ->
    mget RNum M r c = mget RNum M' r' c'.
  Proof. apply get_matrix_transport_gen, leaves_ok_R. Qed.
End LocalR.

Print Assumptions get_matrix_ok_iff.
Print Assumptions get_matrix_local.
Print Assumptions get_matrix_transport.

(* ================================================================== *)
(* Part B: relabelling = conjugation by the qubit permutation (C03)    *)

(* f restricted to {0..n-1} is a permutation (surjectivity follows) *)
Definition perm_on (n : Z) (f : Z -> Z) : Prop :=
  (forall q, (0 <= q < n)%Z -> (0 <= f q < n)%Z) /\
  (forall q1 q2, (0 <= q1 < n)%Z -> (0 <= q2 < n)%Z -> f q1 = f q2 -> q1 = q2).

(* the images f 0, ..., f (n-1) as bit positions *)
Definition perm_qs (f : Z -> Z) (n : Z) : list N :=
  map (fun i => Z.to_N (f (Z.of_nat i))) (seq 0 (Z.to_nat n)).

(* the basis index with bit q of r moved to bit (f q), for q < n *)
Definition perm_ket (f : Z -> Z) (n : Z) (r : N) : N := expand_ket 0 r (perm_qs f n).
Definition perm_idx (f : Z -> Z) (n : Z) (r : nat) : nat := N.to_nat (perm_ket f n (N.of_nat r)).

Lemma perm_qs_nth f n q : (0 <= q < n)%Z ->
  nth_error (perm_qs f n) (Z.to_nat q) = Some (Z.to_N (f q)).
Proof.
  intros Hq. unfold perm_qs. rewrite nth_error_map.
  assert (E : nth_error (seq 0 (Z.to_nat n)) (Z.to_nat q) = Some (Z.to_nat q)).
  { rewrite (nth_error_nth' _ 0) by (rewrite seq_length; lia). now rewrite seq_nth by lia. }
  rewrite E. cbn [option_map]. now rewrite Z2Nat.id by lia.
Qed.

Lemma perm_qs_length f n : length (perm_qs f n) = Z.to_nat n.
Proof. unfold perm_qs. now rewrite map_length, seq_length. Qed.

Lemma perm_qs_NoDup f n : perm_on n f -> NoDup (perm_qs f n).
Proof.
  intros [Hr Hi]. unfold perm_qs. apply NoDup_map_inj_in; [|apply seq_NoDup].
  intros x y Hx Hy E. apply in_seq in Hx. apply in_seq in Hy.
  pose proof (Hr (Z.of_nat x) ltac:(lia)). pose proof (Hr (Z.of_nat y) ltac:(lia)).
  assert (E' : f (Z.of_nat x) = f (Z.of_nat y)) by lia.
  apply Hi in E'; lia.
Qed.

Lemma perm_qs_lt f n b : perm_on n f -> In b (perm_qs f n) -> (b < Z.to_N n)%N.
Proof.
  intros [Hr _] Hin. unfold perm_qs in Hin. apply in_map_iff in Hin. destruct Hin as [i [<- Hi]].
  apply in_seq in Hi. pose proof (Hr (Z.of_nat i) ltac:(lia)). lia.
Qed.

(* pigeonhole: every position below n is hit *)
Lemma perm_qs_onto f n b : perm_on n f -> (b < Z.to_N n)%N -> In b (perm_qs f n).
Proof.
  intros Hp Hb.
  assert (Hincl : incl (map N.of_nat (seq 0 (Z.to_nat n))) (perm_qs f n)).
  { apply NoDup_length_incl.
    - now apply perm_qs_NoDup.
    - rewrite map_length, seq_length, perm_qs_length. lia.
    - intros x Hx. apply (perm_qs_lt f n x Hp) in Hx. apply in_map_iff.
      exists (N.to_nat x). split; [lia|]. apply in_seq. lia. }
  apply Hincl. apply in_map_iff. exists (N.to_nat b). split; [lia|]. apply in_seq. lia.
Qed.

Lemma perm_ket_bit f n r q : perm_on n f -> (0 <= q < n)%Z ->
  N.testbit (perm_ket f n r) (Z.to_N (f q)) = N.testbit r (Z.to_N q).
Proof.
  intros Hp Hq. unfold perm_ket.
  rewrite (expand_ket_at 0 r (perm_qs f n) (Z.to_nat q) _ (perm_qs_NoDup f n Hp) (perm_qs_nth f n q Hq)).
  now rewrite Z_nat_N.
Qed.

Lemma perm_ket_out f n r b : ~ In b (perm_qs f n) -> N.testbit (perm_ket f n r) b = false.
Proof. intros H. unfold perm_ket. rewrite expand_ket_other by exact H. apply N.bits_0. Qed.

Lemma perm_ket_lt f n r : perm_on n f -> (perm_ket f n r < 2 ^ Z.to_N n)%N.
Proof.
  intros Hp. unfold perm_ket. apply expand_ket_lt.
  - intros q Hq. now apply (perm_qs_lt f n q Hp).
  - assert (H := N.pow_nonzero 2 (Z.to_N n)). lia.
Qed.

Lemma perm_idx_lt f n r : perm_on n f -> perm_idx f n r < zpow2 n.
Proof.
  intros Hp. unfold perm_idx. pose proof (perm_ket_lt f n (N.of_nat r) Hp) as H.
  rewrite <- of_nat_zpow2 in H. lia.
Qed.

Lemma lt_zpow2_bits n r b : r < zpow2 n -> (Z.to_N n <= b)%N -> N.testbit (N.of_nat r) b = false.
Proof.
  intros Hr Hb. apply (proj1 (lt_pow2_bits (N.of_nat r) (Z.to_N n))); [|exact Hb].
  rewrite <- of_nat_zpow2. lia.
Qed.

(* an index below 2^n is determined by its image: perm_ket is injective there *)
Lemma perm_ket_inj f n r c : perm_on n f -> (r < 2 ^ Z.to_N n)%N -> (c < 2 ^ Z.to_N n)%N ->
  perm_ket f n r = perm_ket f n c -> r = c.
Proof.
  intros Hp Hr Hc E. apply N.bits_inj. intros b.
  destruct (N.lt_ge_cases b (Z.to_N n)) as [Hlt|Hge].
  - assert (Hq : (0 <= Z.of_N b < n)%Z) by lia.
    replace b with (Z.to_N (Z.of_N b)) by lia.
    rewrite <- !(perm_ket_bit f n _ _ Hp Hq). now rewrite E.
  - rewrite (proj1 (lt_pow2_bits r _) Hr b Hge), (proj1 (lt_pow2_bits c _) Hc b Hge). reflexivity.
Qed.

Section RelabelGen.
  Context {T : Type} (NT : Num T).
  Notation matT := (list (list (T * T))).

  (* C03: the matrix of the relabelled gate is the matrix of the gate with rows
     and columns permuted by the induced permutation of basis indices *)
  Theorem get_matrix_relabel_gen f n (g : gate T) (M M' : matT) r c :
    leaves_ok NT g -> perm_on n f -> mat_ops_nodup g ->
    get_matrix NT n g = Ok M -> get_matrix NT n (map_gate_qubits f g) = Ok M' ->
    r < zpow2 n -> c < zpow2 n ->
    mget NT M' (perm_idx f n r) (perm_idx f n c) = mget NT M r c.
  Proof.
    intros Hlv Hp Hnd HM HM' Hr Hc. symmetry.
    pose proof (get_matrix_ok_range NT n g M HM) as Hrange.
    assert (Hinj : inj_on f (gate_qubits g)).
    { intros x y Hx Hy. apply (proj2 Hp); now apply Hrange. }
    assert (Hfollow : forall x, bits_follow f (gate_qubits g) (N.of_nat x) (N.of_nat (perm_idx f n x))).
    { intros x q Hq. unfold perm_idx. rewrite Nnat.N2Nat.id. apply perm_ket_bit; auto. }
    apply (get_matrix_transport_eq_gen NT f n n g M M'); auto using perm_idx_lt.
    apply eq_true_iff_eq. rewrite !agreeb_spec. unfold perm_idx. rewrite !Nnat.N2Nat.id.
    unfold qsN. rewrite gate_qubits_map. split.
    - intros H b Hb. destruct (in_dec N.eq_dec b (perm_qs f n)) as [Hi|Hn].
      + unfold perm_qs in Hi. apply in_map_iff in Hi. destruct Hi as [i [<- Hi]]. apply in_seq in Hi.
        assert (Hq : (0 <= Z.of_nat i < n)%Z) by lia.
        rewrite !(perm_ket_bit f n _ _ Hp Hq). apply H.
        intros Hin. apply Hb. apply in_map_toN in Hin; [|intros z Hz; apply (Hrange z Hz)|lia].
        apply in_map. apply in_map. exact Hin.
      + now rewrite !perm_ket_out by assumption.
    - intros H b Hb. destruct (N.lt_ge_cases b (Z.to_N n)) as [Hlt|Hge].
      + assert (Hq : (0 <= Z.of_N b < n)%Z) by lia.
        assert (Eb : Z.to_N (Z.of_N b) = b) by lia.
        rewrite <- Eb. rewrite <- !(perm_ket_bit f n _ _ Hp Hq). apply H.
        intros Hin. apply in_map_toN in Hin.
        * apply in_map_iff in Hin. destruct Hin as [z [Ez Hz]].
          assert (z = Z.of_N b) by (apply (proj2 Hp); auto). subst z.
          apply Hb. rewrite <- Eb. now apply in_map.
        * intros z Hz. apply in_map_iff in Hz. destruct Hz as [y [<- Hy]].
          apply (proj1 Hp). now apply Hrange.
        * apply (proj1 Hp). exact Hq.
      + now rewrite !(lt_zpow2_bits n _ b) by assumption.
  Qed.
End RelabelGen.

Section RelabelR.
  Notation matR := (list (list (R * R))).

  (* C03 at the real numbers, every gate kind *)
  Theorem get_matrix_relabel f n (g : gate R) (M M' : matR) r c :
    perm_on n f -> mat_ops_nodup g ->
    get_matrix RNum n g = Ok M -> get_matrix RNum n (map_gate_qubits f g) = Ok M' ->
    r < zpow2 n -> c < zpow2 n ->
    mget RNum M' (perm_idx f n r) (perm_idx f n c) = mget RNum M r c.
  Proof. apply get_matrix_relabel_gen, leaves_ok_R. Qed.
End RelabelR.

(* C03 for any number type: gates built from matrix gates and controls only *)
Corollary get_matrix_relabel_bsr_free {T} (NT : Num T) f n (g : gate T) (M M' : list (list (T * T))) r c :
  bsr_free g -> perm_on n f -> mat_ops_nodup g ->
  get_matrix NT n g = Ok M -> get_matrix NT n (map_gate_qubits f g) = Ok M' ->
  r < zpow2 n -> c < zpow2 n ->
  mget NT M' (perm_idx f n r) (perm_idx f n c) = mget NT M r c.
Proof. intros Hf. apply get_matrix_relabel_gen. now right. Qed.

(* success is preserved, for any T: f preserves the range, nothing else is checked *)
Theorem get_matrix_relabel_ok {T} (N : Num T) f n (g : gate T) :
  perm_on n f ->
  (exists M, get_matrix N n g = Ok M) -> exists M', get_matrix N n (map_gate_qubits f g) = Ok M'.
Proof.
  intros Hp H. apply get_matrix_ok_iff in H. destruct H as [Hq Hs]. apply get_matrix_ok_iff. split.
  - intros q Hin. rewrite gate_qubits_map in Hin. apply in_map_iff in Hin.
    destruct Hin as [z [<- Hz]]. apply (proj1 Hp). now apply Hq.
  - now apply gate_shapes_ok_map.
Qed.

(* ... and reflected when f sends nothing from outside the register into it *)
Theorem get_matrix_relabel_ok_iff {T} (N : Num T) f n (g : gate T) :
  perm_on n f -> (forall q, In q (gate_qubits g) -> (0 <= f q < n)%Z -> (0 <= q < n)%Z) ->
  ((exists M, get_matrix N n g = Ok M) <-> exists M', get_matrix N n (map_gate_qubits f g) = Ok M').
Proof.
  intros Hp Hback. split; [now apply get_matrix_relabel_ok|].
  intros H. apply get_matrix_ok_iff in H. destruct H as [Hq Hs]. apply get_matrix_ok_iff. split.
  - intros q Hin. apply Hback; [exact Hin|]. apply Hq. rewrite gate_qubits_map. now apply in_map.
  - now apply gate_shapes_ok_map in Hs.
Qed.

(* the mappings of the mapper pass are such permutations *)
Lemma apply_mapping_perm_on l : mapping_ok l = true -> perm_on (Z.of_nat (length l)) (apply_mapping l).
Proof.
  intros Hok. split.
  - intros q Hq. apply covered_iff. apply apply_mapping_range; [exact Hok|]. now apply covered_iff.
  - intros q1 q2 H1 H2. apply apply_mapping_inj; [exact Hok| |]; now apply covered_iff.
Qed.

Lemma apply_mapping_back l q :
  (0 <= apply_mapping l q < Z.of_nat (length l))%Z -> (0 <= q < Z.of_nat (length l))%Z.
Proof.
  intros H. destruct (covered l q) eqn:E; [now apply covered_iff|].
  rewrite (apply_mapping_uncovered l q E) in H. apply covered_iff in H. congruence.
Qed.

Corollary get_matrix_remap_ok_iff {T} (N : Num T) l (g : gate T) :
  mapping_ok l = true ->
  ((exists M, get_matrix N (Z.of_nat (length l)) g = Ok M) <->
   exists M', get_matrix N (Z.of_nat (length l)) (map_gate_qubits (apply_mapping l) g) = Ok M').
Proof.
  intros Hok. apply get_matrix_relabel_ok_iff; [now apply apply_mapping_perm_on|].
  intros q _. apply apply_mapping_back.
Qed.

Corollary get_matrix_remap l (g : gate R) (M M' : list (list (R * R))) r c :
  mapping_ok l = true -> mat_ops_nodup g ->
  get_matrix RNum (Z.of_nat (length l)) g = Ok M ->
  get_matrix RNum (Z.of_nat (length l)) (map_gate_qubits (apply_mapping l) g) = Ok M' ->
  r < 2 ^ length l -> c < 2 ^ length l ->
  mget RNum M' (perm_idx (apply_mapping l) (Z.of_nat (length l)) r)
               (perm_idx (apply_mapping l) (Z.of_nat (length l)) c) = mget RNum M r c.
Proof.
  intros Hok Hnd HM HM' Hr Hc. rewrite <- zpow2_of_nat in Hr, Hc.
  apply (get_matrix_relabel _ _ g); auto using apply_mapping_perm_on.
Qed.

Print Assumptions get_matrix_relabel.
Print Assumptions get_matrix_relabel_ok.
Print Assumptions get_matrix_relabel_ok_iff.
Print Assumptions get_matrix_remap_ok_iff.

(* ================================================================== *)
(* Part A: the gate on n qubits is the gate on its own qubits, embedded *)

(* position in idx (the relabelling of the reindexer) *)
Definition zpos (idx : list Z) (q : Z) : Z :=
  match zindex q idx with Some i => i | None => (-1)%Z end.

(* the bits of r at the positions idx, packed: bit j of [pack idx r] is bit (nth j idx) of r *)
Definition pack (idx : list Z) (r : nat) : nat :=
  N.to_nat (reduced_ket (N.of_nat r) (map Z.to_N idx)).

Lemma zindex_Some_In x l : forall p, zindex x l = Some p -> In x l.
Proof.
  induction l as [|y l IH]; intros p; cbn [zindex]; [discriminate|].
  destruct (Z.eqb_spec x y) as [->|Hne]; [intros _; now left|].
  destruct (zindex x l) as [p'|]; cbn [option_map]; [|discriminate].
  intros _. right. now apply (IH p').
Qed.

Lemma zpos_zindex idx q i : zindex q idx = Some i -> zpos idx q = i.
Proof. intros H. unfold zpos. now rewrite H. Qed.

Lemma zpos_spec idx q : In q idx ->
  (0 <= zpos idx q < Z.of_nat (length idx))%Z /\ nth_error idx (Z.to_nat (zpos idx q)) = Some q.
Proof.
  intros Hin. destruct (zindex_In q idx Hin) as [p Hp]. rewrite (zpos_zindex _ _ _ Hp).
  destruct (zindex_Some q idx p q Hp) as [Hr Hn]. split; [exact Hr|].
  rewrite (nth_error_nth' idx q) by lia. now rewrite Hn.
Qed.

Lemma zpos_inj idx : inj_on (zpos idx) idx.
Proof.
  intros x y Hx Hy E. destruct (zpos_spec idx x Hx) as [_ H1]. destruct (zpos_spec idx y Hy) as [_ H2].
  rewrite E in H1. congruence.
Qed.

Lemma zpos_nth_error idx i q : NoDup idx -> nth_error idx i = Some q -> zpos idx q = Z.of_nat i.
Proof.
  intros Hnd Hi. assert (Hin : In q idx) by (eapply nth_error_In; exact Hi).
  destruct (zpos_spec idx q Hin) as [Hr Hn].
  assert (Hlt : i < length idx) by (apply nth_error_Some; congruence).
  assert (E : i = Z.to_nat (zpos idx q)).
  { apply (proj1 (NoDup_nth_error idx) Hnd i _ Hlt). congruence. }
  lia.
Qed.

Lemma pack_lt idx r : pack idx r < 2 ^ length idx.
Proof.
  unfold pack. pose proof (reduced_ket_lt (N.of_nat r) (map Z.to_N idx)) as H.
  rewrite map_length in H. rewrite <- of_nat_pow2 in H. lia.
Qed.

Lemma pack_follow idx qs r : incl qs idx ->
  bits_follow (zpos idx) qs (N.of_nat r) (N.of_nat (pack idx r)).
Proof.
  intros Hi q Hq. unfold pack. rewrite Nnat.N2Nat.id, reduced_ket_spec.
  destruct (zpos_spec idx q (Hi q Hq)) as [Hr Hn].
  rewrite Z_N_nat, nth_error_map, Hn. reflexivity.
Qed.

(* the relabelled gate fits on length idx qubits exactly when the gate fits on
   a register that contains idx, any T *)
Theorem get_matrix_embed_ok {T} (N : Num T) idx n (g : gate T) :
  incl (gate_qubits g) idx -> (forall q, In q idx -> (0 <= q < n)%Z) ->
  ((exists M, get_matrix N n g = Ok M) <->
   exists M', get_matrix N (Z.of_nat (length idx)) (map_gate_qubits (zpos idx) g) = Ok M').
Proof.
  intros Hi Hr. rewrite !get_matrix_ok_iff, gate_shapes_ok_map, gate_qubits_map. split; intros [Hq Hs]; (split; [|exact Hs]).
  - intros q Hin. apply in_map_iff in Hin. destruct Hin as [z [<- Hz]].
    apply zpos_spec. now apply Hi.
  - intros q Hin. apply Hr. now apply Hi.
Qed.

Section EmbedGen.
  Context {T : Type} (NT : Num T).
  Notation matT := (list (list (T * T))).
  Notation c0T := (czero NT).

  (* one formula for every gate kind: on a register of any size n the entry
     (r, c) is the entry of the gate on its own qubits at the packed bits,
     provided r and c agree everywhere else; otherwise zero *)
  Theorem get_matrix_embed_gen idx n (g : gate T) (M M' : matT) r c :
    leaves_ok NT g ->
    NoDup idx -> (forall q, In q idx -> (0 <= q)%Z) -> incl (gate_qubits g) idx -> mat_ops_nodup g ->
    get_matrix NT n g = Ok M ->
    get_matrix NT (Z.of_nat (length idx)) (map_gate_qubits (zpos idx) g) = Ok M' ->
    r < zpow2 n -> c < zpow2 n ->
    mget NT M r c =
    if agreeb (map Z.to_N idx) (N.of_nat r) (N.of_nat c)
    then mget NT M' (pack idx r) (pack idx c) else c0T.
  Proof.
    intros Hlv Hnd Hpos Hincl Hops HM HM' Hr Hc.
    assert (HinclN : incl (qsN g) (map Z.to_N idx)).
    { intros b Hb. unfold qsN in Hb. apply in_map_iff in Hb. destruct Hb as [q [<- Hq]].
      apply in_map. now apply Hincl. }
    destruct (agreeb (map Z.to_N idx) (N.of_nat r) (N.of_nat c)) eqn:Eidx.
    - assert (Hinj : inj_on (zpos idx) (gate_qubits g)).
      { eapply inj_on_incl; [exact Hincl|apply zpos_inj]. }
      apply (get_matrix_transport_eq_gen NT (zpos idx) n (Z.of_nat (length idx)) g M M'); auto;
        try (rewrite zpow2_of_nat; apply pack_lt); try (now apply pack_follow).
      apply eq_true_iff_eq. rewrite !agreeb_spec. unfold pack. rewrite !Nnat.N2Nat.id.
      unfold qsN. rewrite gate_qubits_map. split.
      + intros H b Hb. rewrite !reduced_ket_spec, nth_error_map.
        destruct (nth_error idx (N.to_nat b)) as [q|] eqn:Eq; cbn [option_map]; [|reflexivity].
        apply H. intros Hin.
        assert (Hqi : In q idx) by (eapply nth_error_In; exact Eq).
        apply in_map_toN in Hin; [|intros z Hz; apply Hpos; now apply Hincl|now apply Hpos].
        apply Hb. apply in_map_iff. exists (zpos idx q). split; [|now apply in_map].
        rewrite (zpos_nth_error idx _ q Hnd Eq). lia.
      + intros H b Hb. destruct (in_dec N.eq_dec b (map Z.to_N idx)) as [Hi|Hn].
        * apply in_map_iff in Hi. destruct Hi as [q [<- Hq]].
          pose proof (pack_follow idx [q] r) as F1. pose proof (pack_follow idx [q] c) as F2.
          unfold pack in F1, F2. rewrite Nnat.N2Nat.id in F1, F2.
          rewrite <- (F1 ltac:(intros z [<-|[]]; exact Hq) q (or_introl eq_refl)).
          rewrite <- (F2 ltac:(intros z [<-|[]]; exact Hq) q (or_introl eq_refl)).
          apply H. intros Hin. apply in_map_toN in Hin.
          -- apply in_map_iff in Hin. destruct Hin as [z [Ez Hz]].
             assert (z = q) by (apply (zpos_inj idx); auto). subst z.
             apply Hb. now apply in_map.
          -- intros z Hz. apply in_map_iff in Hz. destruct Hz as [y [<- Hy]].
             apply (zpos_spec idx y). now apply Hincl.
          -- now apply (zpos_spec idx q).
        * now apply (proj1 (agreeb_spec _ _ _) Eidx).
    - apply (get_matrix_local_gen NT n g Hlv M r c HM Hops Hr Hc).
      destruct (agreeb (qsN g) (N.of_nat r) (N.of_nat c)) eqn:E; [|reflexivity].
      rewrite (agreeb_mono _ _ _ _ HinclN E) in Eidx. discriminate.
  Qed.
End EmbedGen.

Section EmbedR.
  Notation matR := (list (list (R * R))).
  Notation c0R := (czero RNum).

  (* at the real numbers, every gate kind *)
  Theorem get_matrix_embed idx n (g : gate R) (M M' : matR) r c :
    NoDup idx -> (forall q, In q idx -> (0 <= q)%Z) -> incl (gate_qubits g) idx -> mat_ops_nodup g ->
    get_matrix RNum n g = Ok M ->
    get_matrix RNum (Z.of_nat (length idx)) (map_gate_qubits (zpos idx) g) = Ok M' ->
    r < zpow2 n -> c < zpow2 n ->
    mget RNum M r c =
    if agreeb (map Z.to_N idx) (N.of_nat r) (N.of_nat c)
    then mget RNum M' (pack idx r) (pack idx c) else c0R.
  Proof. apply get_matrix_embed_gen, leaves_ok_R. Qed.

  (* the same with the gate's own operand list as index list: the small
     matrix has dimension 2^(number of operands), whatever n *)
  Corollary get_matrix_embed_own n (g : gate R) (M M' : matR) r c :
    NoDup (gate_qubits g) ->
    get_matrix RNum n g = Ok M ->
    get_matrix RNum (Z.of_nat (length (gate_qubits g))) (map_gate_qubits (zpos (gate_qubits g)) g) = Ok M' ->
    r < zpow2 n -> c < zpow2 n ->
    mget RNum M r c =
    if agreeb (qsN g) (N.of_nat r) (N.of_nat c)
    then mget RNum M' (pack (gate_qubits g) r) (pack (gate_qubits g) c) else c0R.
  Proof.
    intros Hnd HM HM' Hr Hc.
    apply (get_matrix_embed (gate_qubits g) n g M M'); auto using incl_refl, nodup_mat_ops_nodup.
    intros q Hq. apply (get_matrix_ok_range RNum n g M HM q Hq).
  Qed.

  (* the three gate kinds separately, same conclusion *)
  Corollary get_matrix_embed_bsr idx n q ax a p (M M' : matR) r c :
    NoDup idx -> (forall z, In z idx -> (0 <= z)%Z) -> In q idx ->
    get_matrix RNum n (BSR q ax a p) = Ok M ->
    get_matrix RNum (Z.of_nat (length idx)) (BSR (zpos idx q) ax a p) = Ok M' ->
    r < zpow2 n -> c < zpow2 n ->
    mget RNum M r c =
    if agreeb (map Z.to_N idx) (N.of_nat r) (N.of_nat c)
    then mget RNum M' (pack idx r) (pack idx c) else c0R.
  Proof.
    intros Hnd Hpos Hq HM HM'. apply (get_matrix_embed idx n (BSR q ax a p)); auto.
    - intros z [<-|[]]. exact Hq.
    - exact I.
  Qed.

  Corollary get_matrix_embed_ctrl idx n cq (g : gate R) (M M' : matR) r c :
    NoDup idx -> (forall z, In z idx -> (0 <= z)%Z) -> In cq idx -> incl (gate_qubits g) idx ->
    mat_ops_nodup g ->
    get_matrix RNum n (Ctrl cq g) = Ok M ->
    get_matrix RNum (Z.of_nat (length idx)) (Ctrl (zpos idx cq) (map_gate_qubits (zpos idx) g)) = Ok M' ->
    r < zpow2 n -> c < zpow2 n ->
    mget RNum M r c =
    if agreeb (map Z.to_N idx) (N.of_nat r) (N.of_nat c)
    then mget RNum M' (pack idx r) (pack idx c) else c0R.
  Proof.
    intros Hnd Hpos Hq Hi Hops HM HM'. apply (get_matrix_embed idx n (Ctrl cq g)); auto.
    intros z [<-|Hz]; [exact Hq|now apply Hi].
  Qed.

  Corollary get_matrix_embed_mat idx n m ops (M M' : matR) r c :
    NoDup idx -> (forall z, In z idx -> (0 <= z)%Z) -> incl ops idx -> NoDup ops ->
    get_matrix RNum n (Mat m ops) = Ok M ->
    get_matrix RNum (Z.of_nat (length idx)) (Mat m (map (zpos idx) ops)) = Ok M' ->
    r < zpow2 n -> c < zpow2 n ->
    mget RNum M r c =
    if agreeb (map Z.to_N idx) (N.of_nat r) (N.of_nat c)
    then mget RNum M' (pack idx r) (pack idx c) else c0R.
  Proof.
    intros Hnd Hpos Hi Hops HM HM'. apply (get_matrix_embed idx n (Mat m ops)); auto.
  Qed.
End EmbedR.

(* any number type: matrix gates, and controlled gates whose innermost target is
   a matrix gate, need no ring law at all *)
Corollary get_matrix_embed_bsr_free {T} (NT : Num T) idx n (g : gate T) (M M' : list (list (T * T))) r c :
  bsr_free g ->
  NoDup idx -> (forall q, In q idx -> (0 <= q)%Z) -> incl (gate_qubits g) idx -> mat_ops_nodup g ->
  get_matrix NT n g = Ok M ->
  get_matrix NT (Z.of_nat (length idx)) (map_gate_qubits (zpos idx) g) = Ok M' ->
  r < zpow2 n -> c < zpow2 n ->
  mget NT M r c =
  if agreeb (map Z.to_N idx) (N.of_nat r) (N.of_nat c)
  then mget NT M' (pack idx r) (pack idx c) else czero NT.
Proof. intros Hf. apply get_matrix_embed_gen. now right. Qed.

(* any number type: a control added on top of a gate keeps the formula's
   premises (the induction step, isolated) *)
Corollary get_matrix_embed_ctrl_gen {T} (NT : Num T) idx n cq (g : gate T) (M M' : list (list (T * T))) r c :
  leaves_ok NT g ->
  NoDup idx -> (forall z, In z idx -> (0 <= z)%Z) -> In cq idx -> incl (gate_qubits g) idx ->
  mat_ops_nodup g ->
  get_matrix NT n (Ctrl cq g) = Ok M ->
  get_matrix NT (Z.of_nat (length idx)) (Ctrl (zpos idx cq) (map_gate_qubits (zpos idx) g)) = Ok M' ->
  r < zpow2 n -> c < zpow2 n ->
  mget NT M r c =
  if agreeb (map Z.to_N idx) (N.of_nat r) (N.of_nat c)
  then mget NT M' (pack idx r) (pack idx c) else czero NT.
Proof.
  intros Hlv Hnd Hpos Hq Hi Hops HM HM'. apply (get_matrix_embed_gen NT idx n (Ctrl cq g)); auto.
  intros z [<-|Hz]; [exact Hq|now apply Hi].
Qed.

Print Assumptions get_matrix_embed_ok.
Print Assumptions get_matrix_embed.

(* ================================================================== *)
(* what the reindexer returns: the gate relabelled by position, with the
   angles of its rotations passed through the constructor once more     *)

Section ReindexSpec.
  Context {T : Type} (N : Num T).

  Fixpoint renorm_gate (g : gate T) : gate T :=
    match g with
    | BSR q ax a p => BSR q ax (normalize_angle N a) (normalize_angle N p)
    | Ctrl c g' => Ctrl c (renorm_gate g')
    | Mat m ops => Mat m ops
    end.

  Lemma gate_qubits_renorm g : gate_qubits (renorm_gate g) = gate_qubits g.
  Proof.
    induction g as [q ax a p|c g IH|m ops]; cbn [renorm_gate gate_qubits];
      [reflexivity|now rewrite IH|reflexivity].
  Qed.

  Lemma zindex_all_spec idx l : forall is,
    zindex_all idx l = Some is -> is = map (zpos idx) l /\ incl l idx.
  Proof.
    induction l as [|q l IH]; intros is; cbn [zindex_all].
    - intros H. injection H as <-. split; [reflexivity|intros z []].
    - destruct (zindex q idx) as [i|] eqn:Ei; [|discriminate].
      destruct (zindex_all idx l) as [is'|]; cbn [option_map]; [|discriminate].
      intros H. injection H as <-. destruct (IH is' eq_refl) as [-> Hi]. split.
      + cbn [map]. now rewrite (zpos_zindex _ _ _ Ei).
      + intros z [<-|Hz]; [eapply zindex_Some_In; exact Ei|now apply Hi].
  Qed.

  Theorem reindex_gate_spec idx (g : gate T) : forall g',
    reindex_gate N idx g = Ok g' ->
    g' = map_gate_qubits (zpos idx) (renorm_gate g) /\
    incl (gate_qubits g) idx /\ NoDup (gate_qubits g).
  Proof.
    induction g as [q ax a p|c g IH|m ops]; intros g' H.
    - cbn [reindex_gate] in H. destruct (zindex q idx) as [i|] eqn:Ei; [|discriminate].
      injection H as <-. cbn [renorm_gate map_gate_qubits gate_qubits].
      rewrite (zpos_zindex _ _ _ Ei). split; [reflexivity|]. split.
      + intros z [<-|[]]. eapply zindex_Some_In; exact Ei.
      + constructor; [intros []|constructor].
    - cbn [reindex_gate] in H. destruct (zindex c idx) as [i|] eqn:Ei; [|discriminate].
      destruct (reindex_gate N idx g) as [g''|e]; [|discriminate].
      destruct (IH g'' eq_refl) as [-> [Hi _]].
      unfold mk_ctrl in H.
      destruct (znodup (i :: gate_qubits (map_gate_qubits (zpos idx) (renorm_gate g)))) eqn:End; [|discriminate].
      injection H as <-. cbn [renorm_gate map_gate_qubits gate_qubits].
      rewrite (zpos_zindex _ _ _ Ei). split; [reflexivity|]. split.
      + intros z [<-|Hz]; [eapply zindex_Some_In; exact Ei|now apply Hi].
      + apply znodup_NoDup in End. rewrite gate_qubits_map, gate_qubits_renorm in End.
        rewrite <- (zpos_zindex _ _ _ Ei) in End.
        change (zpos idx c :: map (zpos idx) (gate_qubits g))
          with (map (zpos idx) (c :: gate_qubits g)) in End.
        now apply NoDup_map_inv in End.
    - rewrite reindex_gate_mat, reindex_ops_all in H.
      destruct (zindex_all idx ops) as [is|] eqn:Eall; [|discriminate].
      cbn [List.rev app] in H. destruct (zindex_all_spec idx ops is Eall) as [-> Hi].
      unfold mk_mat in H. destruct (Nat.ltb _ _); [discriminate|].
      destruct (znodup (map (zpos idx) ops)) eqn:End; cbn [negb] in H; [|discriminate].
      destruct (negb _); [discriminate|]. injection H as <-.
      cbn [renorm_gate map_gate_qubits gate_qubits]. split; [reflexivity|]. split; [exact Hi|].
      apply znodup_NoDup in End. now apply NoDup_map_inv in End.
  Qed.
End ReindexSpec.

(* the matrix the reindexer's gate has on length idx qubits, embedded *)
Theorem get_matrix_embed_reindexed idx n (g g' : gate R) (M M' : list (list (R * R))) r c :
  NoDup idx -> (forall q, In q idx -> (0 <= q)%Z) ->
  reindex_gate RNum idx g = Ok g' ->
  get_matrix RNum n (renorm_gate RNum g) = Ok M ->
  get_matrix RNum (Z.of_nat (length idx)) g' = Ok M' ->
  r < zpow2 n -> c < zpow2 n ->
  mget RNum M r c =
  if agreeb (map Z.to_N idx) (N.of_nat r) (N.of_nat c)
  then mget RNum M' (pack idx r) (pack idx c) else czero RNum.
Proof.
  intros Hnd Hpos Hre HM HM' Hr Hc.
  destruct (reindex_gate_spec RNum idx g g' Hre) as [-> [Hi Hndq]].
  apply (get_matrix_embed idx n (renorm_gate RNum g) M M'); auto.
  - now rewrite gate_qubits_renorm.
  - apply nodup_mat_ops_nodup. now rewrite gate_qubits_renorm.
Qed.

Print Assumptions reindex_gate_spec.
Print Assumptions get_matrix_embed_reindexed.

(* ================================================================== *)
(* Part A, circuits: products of embedded matrices are embedded products *)

(* the index that agrees with [base] outside idx and has the bits of s at idx *)
Definition unpack (idx : list Z) (base s : nat) : nat :=
  N.to_nat (expand_ket (N.of_nat base) (N.of_nat s) (map Z.to_N idx)).

Lemma idxN_NoDup idx : NoDup idx -> (forall q, In q idx -> (0 <= q)%Z) -> NoDup (map Z.to_N idx).
Proof.
  intros Hnd Hpos. apply NoDup_map_inj_in; [|exact Hnd].
  intros x y Hx Hy E. pose proof (Hpos x Hx). pose proof (Hpos y Hy). lia.
Qed.

Lemma pack_unpack idx base s :
  NoDup (map Z.to_N idx) -> s < 2 ^ length idx -> pack idx (unpack idx base s) = s.
Proof.
  intros Hnd Hs. unfold pack, unpack. rewrite Nnat.N2Nat.id.
  rewrite reduce_expand_mod by exact Hnd. rewrite map_length.
  rewrite N.mod_small; [apply Nnat.Nat2N.id|]. rewrite <- of_nat_pow2. lia.
Qed.

Lemma unpack_lt idx n base s :
  (forall q, In q idx -> (0 <= q < n)%Z) -> base < zpow2 n -> unpack idx base s < zpow2 n.
Proof.
  intros Hr Hb. unfold unpack.
  assert (H : (expand_ket (N.of_nat base) (N.of_nat s) (map Z.to_N idx) < 2 ^ Z.to_N n)%N).
  { apply expand_ket_lt.
    - intros q Hq. apply in_map_iff in Hq. destruct Hq as [z [<- Hz]]. pose proof (Hr z Hz). lia.
    - rewrite <- of_nat_zpow2. lia. }
  rewrite <- of_nat_zpow2 in H. lia.
Qed.

Lemma agree_unpack idx base s :
  agreeb (map Z.to_N idx) (N.of_nat base) (N.of_nat (unpack idx base s)) = true.
Proof.
  apply agreeb_spec. intros b Hb. unfold unpack. rewrite Nnat.N2Nat.id.
  symmetry. now apply expand_ket_other.
Qed.

Lemma unpack_pack idx r j :
  agreeb (map Z.to_N idx) (N.of_nat j) (N.of_nat r) = true -> unpack idx r (pack idx j) = j.
Proof.
  unfold agreeb, unpack, pack. rewrite Nnat.N2Nat.id. intros H. apply N.eqb_eq in H.
  rewrite H. apply Nnat.Nat2N.id.
Qed.

Lemma agreeb_trans qs a b c : agreeb qs a b = true -> agreeb qs b c = true -> agreeb qs a c = true.
Proof.
  rewrite !agreeb_spec. intros H1 H2 x Hx. now rewrite (H1 x Hx), (H2 x Hx).
Qed.

Section EmbedCircuitR.
  Notation matR := (list (list (R * R))).
  Notation c0R := (czero RNum).

  (* M (on n qubits) is M' (on length idx qubits) acting at idx, identity elsewhere *)
  Definition embeds (idx : list Z) (n : Z) (M M' : matR) : Prop :=
    forall r c, r < zpow2 n -> c < zpow2 n ->
      mget RNum M r c =
      if agreeb (map Z.to_N idx) (N.of_nat r) (N.of_nat c)
      then mget RNum M' (pack idx r) (pack idx c) else c0R.

  Lemma embeds_eye idx n : embeds idx n (eye RNum (zpow2 n)) (eye RNum (2 ^ length idx)).
  Proof.
    intros r c Hr Hc. rewrite mget_eye by assumption.
    destruct (agreeb (map Z.to_N idx) (N.of_nat r) (N.of_nat c)) eqn:E.
    - rewrite mget_eye by apply pack_lt.
      destruct (Nat.eqb_spec r c) as [->|Hne]; [now rewrite Nat.eqb_refl|].
      destruct (Nat.eqb_spec (pack idx r) (pack idx c)) as [Ep|]; [|reflexivity].
      exfalso. apply Hne. apply Nnat.Nat2N.inj.
      apply (expand_ket_same_outside_gen _ _ (map Z.to_N idx)).
      + apply agreeb_spec. exact E.
      + unfold pack in Ep. lia.
    - destruct (Nat.eqb_spec r c) as [->|]; [|reflexivity]. rewrite agreeb_refl in E. discriminate.
  Qed.

  Lemma embeds_mmul idx n (A B A' B' : matR) :
    NoDup idx -> (forall q, In q idx -> (0 <= q < n)%Z) ->
    wf_mat (zpow2 n) A -> wf_mat (zpow2 n) B ->
    wf_mat (2 ^ length idx) A' -> wf_mat (2 ^ length idx) B' ->
    embeds idx n A A' -> embeds idx n B B' ->
    embeds idx n (mmul RNum A B) (mmul RNum A' B').
  Proof.
    intros Hnd Hrange HA HB HA' HB' EA EB r c Hr Hc.
    assert (HndN : NoDup (map Z.to_N idx)).
    { apply idxN_NoDup; [exact Hnd|]. intros q Hq. apply (Hrange q Hq). }
    assert (HK : 0 < 2 ^ length idx) by (pose proof (Nat.pow_nonzero 2 (length idx)); lia).
    rewrite (mget_mmul RNum _ _ _ A B r c (zpow2_pos n) HA HB Hr Hc).
    rewrite (csum_ext RNum (zpow2 n) _
               (fun j => cmul RNum
                  (if agreeb (map Z.to_N idx) (N.of_nat r) (N.of_nat j)
                   then mget RNum A' (pack idx r) (pack idx j) else c0R)
                  (if agreeb (map Z.to_N idx) (N.of_nat j) (N.of_nat c)
                   then mget RNum B' (pack idx j) (pack idx c) else c0R))).
    2:{ intros j Hj. now rewrite (EA r j Hr Hj), (EB j c Hj Hc). }
    destruct (agreeb (map Z.to_N idx) (N.of_nat r) (N.of_nat c)) eqn:E.
    - rewrite (mget_mmul RNum _ _ _ A' B' _ _ HK HA' HB' (pack_lt idx r) (pack_lt idx c)).
      rewrite (csumR_reindex (zpow2 n) (2 ^ length idx) (unpack idx r) (pack idx)).
      + apply csum_ext. intros s Hs. cbv beta.
        rewrite agree_unpack, (pack_unpack idx r s HndN Hs).
        assert (E2 : agreeb (map Z.to_N idx) (N.of_nat (unpack idx r s)) (N.of_nat c) = true).
        { apply (agreeb_trans _ _ (N.of_nat r)); [|exact E]. rewrite agreeb_sym. apply agree_unpack. }
        now rewrite E2.
      + intros s Hs. now apply unpack_lt.
      + intros s Hs. now apply pack_unpack.
      + intros j Hj. apply pack_lt.
      + intros j Hj Hne.
        destruct (agreeb (map Z.to_N idx) (N.of_nat r) (N.of_nat j)) eqn:E1; [|apply cmulR_0_l].
        exfalso. apply Hne. apply unpack_pack. now rewrite agreeb_sym.
    - apply csumR_zero. intros j Hj. cbv beta.
      destruct (agreeb (map Z.to_N idx) (N.of_nat r) (N.of_nat j)) eqn:E1; [|apply cmulR_0_l].
      destruct (agreeb (map Z.to_N idx) (N.of_nat j) (N.of_nat c)) eqn:E2; [|apply cmulR_0_r].
      rewrite (agreeb_trans _ _ _ _ E1 E2) in E. discriminate.
  Qed.

  (* a list of gates, all inside idx: the matrix of the list on n qubits is the
     matrix of the relabelled list on length idx qubits, embedded *)
  Theorem gates_matrix_embed idx n (gs : list (gate R)) : forall (M M' : matR),
    NoDup idx -> (forall q, In q idx -> (0 <= q < n)%Z) ->
    (forall g, In g gs -> incl (gate_qubits g) idx /\ mat_ops_nodup g) ->
    gates_matrix RNum n gs = Ok M ->
    gates_matrix RNum (Z.of_nat (length idx)) (map (map_gate_qubits (zpos idx)) gs) = Ok M' ->
    embeds idx n M M'.
  Proof.
    induction gs as [|g gs IH] using rev_ind; intros M M' Hnd Hrange Hgs HM HM'.
    - cbn [map] in HM'. unfold gates_matrix in HM, HM'. cbn [map] in HM, HM'.
      rewrite circuit_matrix_nil in HM, HM'. injection HM as <-. injection HM' as <-.
      rewrite zpow2_of_nat. apply embeds_eye.
    - rewrite gates_matrix_snoc in HM. rewrite map_app in HM'. cbn [map] in HM'.
      rewrite gates_matrix_snoc in HM'.
      destruct (gates_matrix RNum n gs) as [A|e] eqn:EA; [|discriminate].
      destruct (get_matrix RNum n g) as [G|e] eqn:EG; [|discriminate].
      destruct (gates_matrix RNum (Z.of_nat (length idx)) (map (map_gate_qubits (zpos idx)) gs))
        as [A'|e] eqn:EA'; [|discriminate].
      destruct (get_matrix RNum (Z.of_nat (length idx)) (map_gate_qubits (zpos idx) g))
        as [G'|e] eqn:EG'; [|discriminate].
      injection HM as <-. injection HM' as <-.
      destruct (Hgs g ltac:(apply in_or_app; right; now left)) as [Hi Hops].
      pose proof (get_matrix_wf RNum _ _ _ EG) as WG.
      pose proof (get_matrix_wf RNum _ _ _ EG') as WG'. rewrite zpow2_of_nat in WG'.
      pose proof (circuit_matrix_wf RNum _ _ _ EA) as WA.
      pose proof (circuit_matrix_wf RNum _ _ _ EA') as WA'. rewrite zpow2_of_nat in WA'.
      apply embeds_mmul; auto.
      + intros r c Hr Hc. apply (get_matrix_embed idx n g G G'); auto.
        intros q Hq. apply (Hrange q Hq).
      + apply IH; auto. intros g0 Hg0. apply Hgs. apply in_or_app. now left.
  Qed.

  Lemma reindex_gates_spec idx (gs : list (gate R)) : forall gs',
    reindex_gates RNum idx gs = Ok gs' ->
    gs' = map (map_gate_qubits (zpos idx)) (map (renorm_gate RNum) gs) /\
    forall g, In g gs -> incl (gate_qubits g) idx /\ NoDup (gate_qubits g).
  Proof.
    induction gs as [|g gs IH]; intros gs' H; cbn [reindex_gates] in H.
    - injection H as <-. split; [reflexivity|intros g []].
    - destruct (reindex_gate RNum idx g) as [g'|e] eqn:Eg; [|discriminate].
      destruct (reindex_gates RNum idx gs) as [r|e]; [|discriminate].
      injection H as <-. destruct (IH r eq_refl) as [-> Hall].
      destruct (reindex_gate_spec RNum idx g g' Eg) as [-> Hg]. split; [reflexivity|].
      intros g0 [<-|Hin]; [exact Hg|now apply Hall].
  Qed.

  (* the matrix compared by check_gate_replacement / compare_gates, against the
     matrix of the same gates on a register of any size *)
  Theorem reindexed_matrix_embed idx n (gs : list (gate R)) (B M : matR) :
    NoDup idx -> (forall q, In q idx -> (0 <= q < n)%Z) ->
    reindexed_matrix RNum idx gs = Ok B ->
    gates_matrix RNum n (map (renorm_gate RNum) gs) = Ok M ->
    embeds idx n M B.
  Proof.
    intros Hnd Hrange HB HM. unfold reindexed_matrix in HB.
    destruct (reindex_gates RNum idx gs) as [gs'|e] eqn:Egs; [|discriminate].
    destruct (reindex_gates_spec idx gs gs' Egs) as [-> Hall].
    apply (gates_matrix_embed idx n (map (renorm_gate RNum) gs)); auto.
    intros g Hg. apply in_map_iff in Hg. destruct Hg as [g0 [<- Hg0]].
    destruct (Hall g0 Hg0) as [Hi Hn]. rewrite gate_qubits_renorm. split; [exact Hi|].
    apply nodup_mat_ops_nodup. now rewrite gate_qubits_renorm.
  Qed.

  (* exact proportionality on the gate's own qubits is exact proportionality on
     every register that contains them *)
  Corollary embedded_proportional idx n (A B MA MB : matR) (k : R * R) :
    embeds idx n MA A -> embeds idx n MB B ->
    (forall i j, i < 2 ^ length idx -> j < 2 ^ length idx ->
       mget RNum B i j = cmul RNum k (mget RNum A i j)) ->
    forall r c, r < zpow2 n -> c < zpow2 n -> mget RNum MB r c = cmul RNum k (mget RNum MA r c).
  Proof.
    intros EA EB Hp r c Hr Hc. rewrite (EA r c Hr Hc), (EB r c Hr Hc).
    destruct (agreeb (map Z.to_N idx) (N.of_nat r) (N.of_nat c)).
    - apply Hp; apply pack_lt.
    - now rewrite cmulR_0_r.
  Qed.
End EmbedCircuitR.

Print Assumptions gates_matrix_embed.
Print Assumptions reindexed_matrix_embed.

(* ================================================================== *)
(* Part B, circuits and the matrix form M' = P M P^T                   *)

(* the inverse of perm_idx on [0, 2^n) *)
Definition unperm_idx (f : Z -> Z) (n : Z) (j : nat) : nat :=
  N.to_nat (reduced_ket (N.of_nat j) (perm_qs f n)).

Lemma zpow2_pow n : zpow2 n = 2 ^ Z.to_nat n.
Proof. reflexivity. Qed.

Lemma unperm_idx_lt f n j : unperm_idx f n j < zpow2 n.
Proof.
  unfold unperm_idx. pose proof (reduced_ket_lt (N.of_nat j) (perm_qs f n)) as H.
  rewrite perm_qs_length, <- of_nat_pow2 in H. rewrite zpow2_pow. lia.
Qed.

Lemma unperm_perm f n s : perm_on n f -> s < zpow2 n -> unperm_idx f n (perm_idx f n s) = s.
Proof.
  intros Hp Hs. unfold unperm_idx, perm_idx, perm_ket. rewrite Nnat.N2Nat.id.
  rewrite reduce_expand_mod by now apply perm_qs_NoDup.
  rewrite perm_qs_length. rewrite N.mod_small; [apply Nnat.Nat2N.id|].
  rewrite <- of_nat_pow2. rewrite zpow2_pow in Hs. lia.
Qed.

Lemma perm_unperm f n j : perm_on n f -> j < zpow2 n -> perm_idx f n (unperm_idx f n j) = j.
Proof.
  intros Hp Hj. unfold unperm_idx, perm_idx, perm_ket. rewrite Nnat.N2Nat.id.
  assert (E : expand_ket 0 (reduced_ket (N.of_nat j) (perm_qs f n)) (perm_qs f n) = N.of_nat j).
  { etransitivity; [|apply (expand_reduce (N.of_nat j) (perm_qs f n))].
    apply N.bits_inj. intros b. rewrite !expand_ket_spec.
    destruct (last_index (perm_qs f n) b) as [i|] eqn:El; [reflexivity|].
    rewrite N.bits_0. symmetry. apply (lt_zpow2_bits n j b Hj).
    apply last_index_None in El.
    destruct (N.lt_ge_cases b (Z.to_N n)) as [Hlt|Hge]; [|exact Hge].
    exfalso. apply El. now apply perm_qs_onto. }
  rewrite E. apply Nnat.Nat2N.id.
Qed.

Lemma perm_idx_inj f n r c : perm_on n f -> r < zpow2 n -> c < zpow2 n ->
  perm_idx f n r = perm_idx f n c -> r = c.
Proof.
  intros Hp Hr Hc E. rewrite <- (unperm_perm f n r Hp Hr), <- (unperm_perm f n c Hp Hc). now rewrite E.
Qed.

Section RelabelCircuitR.
  Notation matR := (list (list (R * R))).
  Notation c0R := (czero RNum).
  Notation c1R := (cone RNum).

  (* M' is M with rows and columns moved by the permutation of basis indices *)
  Definition permutes (f : Z -> Z) (n : Z) (M M' : matR) : Prop :=
    forall r c, r < zpow2 n -> c < zpow2 n ->
      mget RNum M' (perm_idx f n r) (perm_idx f n c) = mget RNum M r c.

  Lemma permutes_eye f n : perm_on n f -> permutes f n (eye RNum (zpow2 n)) (eye RNum (zpow2 n)).
  Proof.
    intros Hp r c Hr Hc. rewrite !mget_eye by auto using perm_idx_lt.
    destruct (Nat.eqb_spec r c) as [->|Hne]; [now rewrite Nat.eqb_refl|].
    destruct (Nat.eqb_spec (perm_idx f n r) (perm_idx f n c)) as [E|]; [|reflexivity].
    exfalso. apply Hne. now apply (perm_idx_inj f n).
  Qed.

  Lemma permutes_mmul f n (A B A' B' : matR) :
    perm_on n f ->
    wf_mat (zpow2 n) A -> wf_mat (zpow2 n) B -> wf_mat (zpow2 n) A' -> wf_mat (zpow2 n) B' ->
    permutes f n A A' -> permutes f n B B' ->
    permutes f n (mmul RNum A B) (mmul RNum A' B').
  Proof.
    intros Hp HA HB HA' HB' PA PB r c Hr Hc.
    rewrite (mget_mmul RNum _ _ _ A B r c (zpow2_pos n) HA HB Hr Hc).
    rewrite (mget_mmul RNum _ _ _ A' B' _ _ (zpow2_pos n) HA' HB'
               (perm_idx_lt f n r Hp) (perm_idx_lt f n c Hp)).
    rewrite (csumR_reindex (zpow2 n) (zpow2 n) (perm_idx f n) (unperm_idx f n)).
    - apply csum_ext. intros s Hs. cbv beta. now rewrite (PA r s Hr Hs), (PB s c Hs Hc).
    - intros s Hs. now apply perm_idx_lt.
    - intros s Hs. now apply unperm_perm.
    - intros j Hj. apply unperm_idx_lt.
    - intros j Hj Hne. exfalso. apply Hne. now apply perm_unperm.
  Qed.

  (* C03 for a list of gates *)
  Theorem gates_matrix_relabel f n (gs : list (gate R)) : forall (M M' : matR),
    perm_on n f -> (forall g, In g gs -> mat_ops_nodup g) ->
    gates_matrix RNum n gs = Ok M ->
    gates_matrix RNum n (map (map_gate_qubits f) gs) = Ok M' ->
    permutes f n M M'.
  Proof.
    induction gs as [|g gs IH] using rev_ind; intros M M' Hp Hgs HM HM'.
    - unfold gates_matrix in HM, HM'. cbn [map] in HM, HM'.
      rewrite circuit_matrix_nil in HM, HM'. injection HM as <-. injection HM' as <-.
      now apply permutes_eye.
    - rewrite gates_matrix_snoc in HM. rewrite map_app in HM'. cbn [map] in HM'.
      rewrite gates_matrix_snoc in HM'.
      destruct (gates_matrix RNum n gs) as [A|e] eqn:EA; [|discriminate].
      destruct (get_matrix RNum n g) as [G|e] eqn:EG; [|discriminate].
      destruct (gates_matrix RNum n (map (map_gate_qubits f) gs)) as [A'|e] eqn:EA'; [|discriminate].
      destruct (get_matrix RNum n (map_gate_qubits f g)) as [G'|e] eqn:EG'; [|discriminate].
      injection HM as <-. injection HM' as <-.
      pose proof (get_matrix_wf RNum _ _ _ EG) as WG.
      pose proof (get_matrix_wf RNum _ _ _ EG') as WG'.
      pose proof (circuit_matrix_wf RNum _ _ _ EA) as WA.
      pose proof (circuit_matrix_wf RNum _ _ _ EA') as WA'.
      apply permutes_mmul; auto.
      + intros r c Hr Hc. apply (get_matrix_relabel f n g G G'); auto.
        apply Hgs. apply in_or_app. right. now left.
      + apply IH; auto. intros g0 Hg0. apply Hgs. apply in_or_app. now left.
  Qed.

  (* the permutation matrix of perm_idx: column j has its 1 in row perm_idx j *)
  Definition perm_matrix (f : Z -> Z) (n : Z) : matR :=
    map (fun i => map (fun j => if Nat.eqb i (perm_idx f n j) then c1R else c0R) (seq 0 (zpow2 n)))
        (seq 0 (zpow2 n)).

  Lemma shape_perm_matrix f n : wf_mat (zpow2 n) (perm_matrix f n).
  Proof.
    unfold perm_matrix. split; [now rewrite map_length, seq_length|].
    apply Forall_forall. intros row Hin. apply in_map_iff in Hin. destruct Hin as [i [<- _]].
    now rewrite map_length, seq_length.
  Qed.

  Lemma mget_perm_matrix f n i j : i < zpow2 n -> j < zpow2 n ->
    mget RNum (perm_matrix f n) i j = if Nat.eqb i (perm_idx f n j) then c1R else c0R.
  Proof.
    intros Hi Hj. unfold mget, perm_matrix.
    now rewrite (nth_map_seq _ _ _ _ Hi), (nth_map_seq _ _ _ _ Hj).
  Qed.

  (* M' = P M P^T *)
  Theorem permutes_PMPt f n (M M' : matR) :
    perm_on n f -> wf_mat (zpow2 n) M -> wf_mat (zpow2 n) M' -> permutes f n M M' ->
    M' = mmul RNum (perm_matrix f n) (mmul RNum M (transpose RNum (perm_matrix f n))).
  Proof.
    intros Hp WM WM' HP. pose proof (zpow2_pos n) as Hd.
    pose proof (shape_perm_matrix f n) as WP.
    pose proof (shape_transpose RNum _ _ _ WP Hd) as WPt.
    pose proof (wf_mmul RNum _ _ _ WM WPt) as WMPt.
    apply (mat_ext RNum (zpow2 n) (zpow2 n)); [exact WM'|now apply wf_mmul|].
    intros r c Hr Hc.
    rewrite (mget_mmul RNum _ _ _ _ _ r c Hd WP WMPt Hr Hc).
    rewrite (csumR_single _ _ (unperm_idx f n r) (unperm_idx_lt f n r)).
    2:{ intros j Hj Hne. rewrite mget_perm_matrix by assumption.
        destruct (Nat.eqb_spec r (perm_idx f n j)) as [E|_]; [|apply cmulR_0_l].
        exfalso. apply Hne. rewrite E. symmetry. now apply unperm_perm. }
    rewrite mget_perm_matrix by auto using unperm_idx_lt.
    rewrite (perm_unperm f n r Hp Hr), Nat.eqb_refl, cmulR_1_l.
    rewrite (mget_mmul RNum _ _ _ _ _ _ c Hd WM WPt (unperm_idx_lt f n r) Hc).
    rewrite (csumR_single _ _ (unperm_idx f n c) (unperm_idx_lt f n c)).
    2:{ intros j Hj Hne. rewrite (mget_transpose RNum _ _ _ _ _ WP Hj Hc).
        rewrite mget_perm_matrix by assumption.
        destruct (Nat.eqb_spec c (perm_idx f n j)) as [E|_]; [|apply cmulR_0_r].
        exfalso. apply Hne. rewrite E. symmetry. now apply unperm_perm. }
    rewrite (mget_transpose RNum _ _ _ _ _ WP (unperm_idx_lt f n c) Hc).
    rewrite mget_perm_matrix by auto using unperm_idx_lt.
    rewrite (perm_unperm f n c Hp Hc), Nat.eqb_refl, cmulR_1_r.
    rewrite <- (HP _ _ (unperm_idx_lt f n r) (unperm_idx_lt f n c)).
    now rewrite (perm_unperm f n r Hp Hr), (perm_unperm f n c Hp Hc).
  Qed.

  Corollary get_matrix_relabel_PMPt f n (g : gate R) (M M' : matR) :
    perm_on n f -> mat_ops_nodup g ->
    get_matrix RNum n g = Ok M -> get_matrix RNum n (map_gate_qubits f g) = Ok M' ->
    M' = mmul RNum (perm_matrix f n) (mmul RNum M (transpose RNum (perm_matrix f n))).
  Proof.
    intros Hp Hops HM HM'. apply permutes_PMPt; auto.
    - exact (get_matrix_wf RNum _ _ _ HM).
    - exact (get_matrix_wf RNum _ _ _ HM').
    - intros r c Hr Hc. now apply (get_matrix_relabel f n g M M').
  Qed.

  Corollary gates_matrix_relabel_PMPt f n (gs : list (gate R)) (M M' : matR) :
    perm_on n f -> (forall g, In g gs -> mat_ops_nodup g) ->
    gates_matrix RNum n gs = Ok M -> gates_matrix RNum n (map (map_gate_qubits f) gs) = Ok M' ->
    M' = mmul RNum (perm_matrix f n) (mmul RNum M (transpose RNum (perm_matrix f n))).
  Proof.
    intros Hp Hops HM HM'. apply permutes_PMPt; auto.
    - exact (circuit_matrix_wf RNum _ _ _ HM).
    - exact (circuit_matrix_wf RNum _ _ _ HM').
    - now apply (gates_matrix_relabel f n gs).
  Qed.
End RelabelCircuitR.

Print Assumptions gates_matrix_relabel.
Print Assumptions get_matrix_relabel_PMPt.

(* ================================================================== *)
(* what check_gate_replacement compares, on a register of any size     *)

(* accepted replacement: the two matrices it compared are those of the gate and
   of the replacement on ANY register containing the gate's qubits, restricted
   to the gate's qubits (rotation angles as re-normalised by the reindexer) *)
Theorem check_replacement_embeds n (g : gate R) (repl : list (gate R)) u :
  check_replacement RNum g repl = Ok u ->
  (forall q, In q (gate_qubits g) -> (0 <= q < n)%Z) ->
  exists A B : list (list (R * R)),
    reindexed_matrix RNum (gate_qubits g) [g] = Ok A /\
    reindexed_matrix RNum (gate_qubits g) repl = Ok B /\
    equiv_up_to_phase RNum A B = Ok true /\
    (forall MA, gates_matrix RNum n [renorm_gate RNum g] = Ok MA -> embeds (gate_qubits g) n MA A) /\
    (forall MB, gates_matrix RNum n (map (renorm_gate RNum) repl) = Ok MB -> embeds (gate_qubits g) n MB B).
Proof.
  intros Hck Hrange.
  destruct (check_replacement_dim RNum g repl u Hck) as [A [B [HA [HB [_ [_ HE]]]]]].
  exists A, B. split; [exact HA|]. split; [exact HB|]. split; [exact HE|].
  assert (Hnd : NoDup (gate_qubits g)).
  { unfold reindexed_matrix in HA. cbn [reindex_gates] in HA.
    destruct (reindex_gate RNum (gate_qubits g) g) as [g'|e] eqn:Eg; [|discriminate].
    now destruct (reindex_gate_spec RNum _ g g' Eg) as [_ [_ H]]. }
  split.
  - intros MA HMA. apply (reindexed_matrix_embed (gate_qubits g) n [g] A MA); auto.
  - intros MB HMB. apply (reindexed_matrix_embed (gate_qubits g) n repl B MB); auto.
Qed.

(* ================================================================== *)
(* Part C again: globally injective relabellings, and why injectivity on the
   index list alone would not be enough                                  *)

Corollary reindex_gate_relabel_inj {T} (N : Num T) f indices (g : gate T) :
  (forall x y, f x = f y -> x = y) ->
  reindex_gate N (map f indices) (map_gate_qubits f g) = reindex_gate N indices g.
Proof. intros H. apply reindex_gate_relabel. now apply inj_on_global. Qed.

Corollary check_replacement_relabel_inj {T} (N : Num T) f (g : gate T) repl :
  (forall x y, f x = f y -> x = y) ->
  check_replacement N (map_gate_qubits f g) (map (map_gate_qubits f) repl) = check_replacement N g repl.
Proof. intros H. apply check_replacement_relabel. now apply inj_on_global. Qed.

(* a gate qubit outside [indices] may be sent onto an index: injectivity is
   needed on the gate's qubits as well, not only on [indices] *)
Theorem reindex_gate_relabel_indices_only_refuted {T} (N : Num T) (x : T) :
  exists f indices (g : gate T),
    inj_on f indices /\
    reindex_gate N (map f indices) (map_gate_qubits f g) <> reindex_gate N indices g.
Proof.
  exists (fun _ => 0%Z), [0%Z], (BSR 1%Z (x, x, x) x x). split.
  - intros a b [<-|[]] [<-|[]] _. reflexivity.
  - cbn. discriminate.
Qed.

Print Assumptions check_replacement_embeds.
Print Assumptions reindex_gate_relabel_indices_only_refuted.
Print Assumptions get_matrix_local_gen.
Print Assumptions get_matrix_transport_gen.
Print Assumptions get_matrix_relabel_gen.
Print Assumptions get_matrix_relabel_bsr_free.
Print Assumptions get_matrix_embed_gen.
Print Assumptions get_matrix_embed_bsr_free.
Print Assumptions get_matrix_embed_ctrl_gen.
