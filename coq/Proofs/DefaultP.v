(* DefaultP.v — the default gates (Model/DefaultTable.v) denote the cQASM
   standard matrices: [can1 RNum axis angle phase] of the constructed gate is
   the standard 2x2 matrix, exactly or up to one global phase. *)
From Coq Require Import ZArith List Bool String.
Import ListNotations.
From OSQ Require Import Num IR Construct DefaultTable Matrix.
(* Reals after DefaultTable: [PI] must be the real number, not the [pkind] constructor *)
From Coq Require Import Reals Lra Lia.
From OSQ Require Import RTrig RNum ConstructP.
Open Scope string_scope.
Open Scope R_scope.

(* ------------------------------------------------------------------ *)
(** * 2x2 complex matrices over R *)

Definition cmat : Type := list (list (R * R)).
Definition m2 (a b c d : R * R) : cmat := [[a; b]; [c; d]].
Definition scale_mat (z : R * R) (M : cmat) : cmat := List.map (List.map (cmul RNum z)) M.

Lemma pair_ext (a b a' b' : R) : a = a' -> b = b' -> (a, b) = (a', b').
Proof. intros -> ->; reflexivity. Qed.

Lemma m2_ext a b c d a' b' c' d' :
  a = a' -> b = b' -> c = c' -> d = d' -> m2 a b c d = m2 a' b' c' d'.
Proof. intros -> -> -> ->; reflexivity. Qed.

Lemma scale_m2 z a b c d :
  scale_mat z (m2 a b c d) = m2 (cmul RNum z a) (cmul RNum z b) (cmul RNum z c) (cmul RNum z d).
Proof. reflexivity. Qed.

Lemma cis_RNum phi : cis RNum phi = (cos phi, sin phi).
Proof. reflexivity. Qed.

Lemma cmul_pair x y u v : cmul RNum (x, y) (u, v) = (x * u - y * v, x * v + y * u).
Proof. reflexivity. Qed.

Lemma cmul_cis a b : cmul RNum (cis RNum a) (cis RNum b) = cis RNum (a + b).
Proof.
  rewrite !cis_RNum, cmul_pair, cos_plus, sin_plus. apply pair_ext; ring.
Qed.

Lemma cmul_one_l z : cmul RNum (1, 0) z = z.
Proof. destruct z as [u v]. rewrite cmul_pair. apply pair_ext; ring. Qed.

Lemma cmul_cis0_l z : cmul RNum (cis RNum 0) z = z.
Proof. rewrite cis_RNum, cos_0, sin_0. apply cmul_one_l. Qed.

Lemma scale_cis0 a b c d : scale_mat (cis RNum 0) (m2 a b c d) = m2 a b c d.
Proof. rewrite scale_m2, !cmul_cis0_l. reflexivity. Qed.

Lemma scale_one a b c d : scale_mat (1, 0) (m2 a b c d) = m2 a b c d.
Proof. rewrite scale_m2, !cmul_one_l. reflexivity. Qed.

(* can1 at RNum, spelled out *)
Lemma can1_m2 nx ny nz a p :
  can1 RNum (nx, ny, nz) a p =
  m2 (cmul RNum (cis RNum p) (cos (a / 2), - (sin (a / 2) * nz)))
     (cmul RNum (cis RNum p) (- (sin (a / 2) * ny), - (sin (a / 2) * nx)))
     (cmul RNum (cis RNum p) (sin (a / 2) * ny, - (sin (a / 2) * nx)))
     (cmul RNum (cis RNum p) (cos (a / 2), sin (a / 2) * nz)).
Proof. reflexivity. Qed.

(* ------------------------------------------------------------------ *)
(** * the standard matrices; a complex number is (re, im) *)

Definition I_std : cmat := m2 (1, 0) (0, 0) (0, 0) (1, 0).
Definition X_std : cmat := m2 (0, 0) (1, 0) (1, 0) (0, 0).
Definition Y_std : cmat := m2 (0, 0) (0, -1) (0, 1) (0, 0).
Definition Z_std : cmat := m2 (1, 0) (0, 0) (0, 0) (-1, 0).
Definition H_std : cmat :=
  m2 (/ sqrt 2, 0) (/ sqrt 2, 0) (/ sqrt 2, 0) (- / sqrt 2, 0).
(* diag(1, e^{i a}) *)
Definition phase_std (a : R) : cmat := m2 (1, 0) (0, 0) (0, 0) (cos a, sin a).
Definition S_std : cmat := m2 (1, 0) (0, 0) (0, 0) (0, 1).
Definition Sdag_std : cmat := m2 (1, 0) (0, 0) (0, 0) (0, -1).
Definition T_std : cmat := phase_std (PI / 4).
Definition Tdag_std : cmat := phase_std (- (PI / 4)).
Definition X90_std : cmat :=
  m2 (/ sqrt 2, 0) (0, - / sqrt 2) (0, - / sqrt 2) (/ sqrt 2, 0).
Definition mX90_std : cmat :=
  m2 (/ sqrt 2, 0) (0, / sqrt 2) (0, / sqrt 2) (/ sqrt 2, 0).
Definition Y90_std : cmat :=
  m2 (/ sqrt 2, 0) (- / sqrt 2, 0) (/ sqrt 2, 0) (/ sqrt 2, 0).
Definition mY90_std : cmat :=
  m2 (/ sqrt 2, 0) (/ sqrt 2, 0) (- / sqrt 2, 0) (/ sqrt 2, 0).
Definition Rx_std (t : R) : cmat :=
  m2 (cos (t / 2), 0) (0, - sin (t / 2)) (0, - sin (t / 2)) (cos (t / 2), 0).
Definition Ry_std (t : R) : cmat :=
  m2 (cos (t / 2), 0) (- sin (t / 2), 0) (sin (t / 2), 0) (cos (t / 2), 0).
Definition Rz_std (t : R) : cmat :=
  m2 (cos (t / 2), - sin (t / 2)) (0, 0) (0, 0) (cos (t / 2), sin (t / 2)).

(* ------------------------------------------------------------------ *)
(** * can1 for the three coordinate axes and the Hadamard axis *)

Ltac entries := apply m2_ext; rewrite ?cis_RNum, ?cmul_pair; apply pair_ext.

Lemma can1_x a p : can1 RNum (1, 0, 0) a p = scale_mat (cis RNum p) (Rx_std a).
Proof. rewrite can1_m2. unfold Rx_std. rewrite scale_m2. entries; ring. Qed.

Lemma can1_y a p : can1 RNum (0, 1, 0) a p = scale_mat (cis RNum p) (Ry_std a).
Proof. rewrite can1_m2. unfold Ry_std. rewrite scale_m2. entries; ring. Qed.

Lemma can1_z_sym a p : can1 RNum (0, 0, 1) a p = scale_mat (cis RNum p) (Rz_std a).
Proof. rewrite can1_m2. unfold Rz_std. rewrite scale_m2. entries; ring. Qed.

(* the Z axis, as a phase gate: e^{i(p - a/2)} diag(1, e^{i a}) *)
Lemma can1_z a p :
  can1 RNum (0, 0, 1) a p = scale_mat (cis RNum (p - a / 2)) (phase_std a).
Proof.
  rewrite can1_m2. unfold phase_std. rewrite scale_m2. apply m2_ext.
  - replace (cos (a / 2), - (sin (a / 2) * 1)) with (cis RNum (- (a / 2))).
    + rewrite cmul_cis. replace (p + - (a / 2)) with (p - a / 2) by ring.
      rewrite cis_RNum, cmul_pair. apply pair_ext; ring.
    + rewrite cis_RNum, cos_neg, sin_neg. apply pair_ext; ring.
  - rewrite !cis_RNum, !cmul_pair. apply pair_ext; ring.
  - rewrite !cis_RNum, !cmul_pair. apply pair_ext; ring.
  - replace (cos (a / 2), sin (a / 2) * 1) with (cis RNum (a / 2)).
    + change (cos a, sin a) with (cis RNum a). rewrite !cmul_cis.
      f_equal. field.
    + rewrite cis_RNum. apply pair_ext; ring.
Qed.

Lemma can1_h : can1 RNum (/ sqrt 2, 0, / sqrt 2) PI (PI / 2) = H_std.
Proof.
  rewrite can1_m2. unfold H_std. rewrite cis_RNum, cos_PI2, sin_PI2.
  apply m2_ext; rewrite cmul_pair; apply pair_ext; ring.
Qed.

(* ------------------------------------------------------------------ *)
(** * the constants of the table: axes and angles are fixed by the constructor *)

Lemma mk_axis_x : mk_axis RNum (1, 0, 0) = (1, 0, 0).
Proof.
  rewrite mk_axis_RNum. replace (1 * 1 + 0 * 0 + 0 * 0) with 1 by ring. rewrite sqrt_1.
  apply f_equal2; [apply pair_ext|]; field.
Qed.

Lemma mk_axis_y : mk_axis RNum (0, 1, 0) = (0, 1, 0).
Proof.
  rewrite mk_axis_RNum. replace (0 * 0 + 1 * 1 + 0 * 0) with 1 by ring. rewrite sqrt_1.
  apply f_equal2; [apply pair_ext|]; field.
Qed.

Lemma mk_axis_z : mk_axis RNum (0, 0, 1) = (0, 0, 1).
Proof.
  rewrite mk_axis_RNum. replace (0 * 0 + 0 * 0 + 1 * 1) with 1 by ring. rewrite sqrt_1.
  apply f_equal2; [apply pair_ext|]; field.
Qed.

Lemma mk_axis_h : mk_axis RNum (1, 0, 1) = (/ sqrt 2, 0, / sqrt 2).
Proof.
  rewrite mk_axis_RNum. replace (1 * 1 + 0 * 0 + 1 * 1) with 2 by ring.
  unfold Rdiv. apply f_equal2; [apply pair_ext|]; ring.
Qed.

Lemma norm_0 : normalize_angle RNum 0 = 0.
Proof. pose proof PI_bounds. apply normalize_id; lra. Qed.
Lemma norm_PI : normalize_angle RNum PI = PI.
Proof. pose proof PI_bounds. apply normalize_id; lra. Qed.
Lemma norm_PI2 : normalize_angle RNum (PI / 2) = PI / 2.
Proof. pose proof PI_bounds. apply normalize_id; lra. Qed.
Lemma norm_mPI2 : normalize_angle RNum (- PI / 2) = - PI / 2.
Proof. pose proof PI_bounds. apply normalize_id; lra. Qed.
Lemma norm_PI4 : normalize_angle RNum (PI / 4) = PI / 4.
Proof. pose proof PI_bounds. apply normalize_id; lra. Qed.
Lemma norm_mPI4 : normalize_angle RNum (- PI / 4) = - PI / 4.
Proof. pose proof PI_bounds. apply normalize_id; lra. Qed.

Lemma mk_bsr_RNum q v a p :
  mk_bsr RNum q v a p = BSR q (mk_axis RNum v) (normalize_angle RNum a) (normalize_angle RNum p).
Proof. reflexivity. Qed.

Lemma cos_PI4' : cos (PI / 4) = / sqrt 2.
Proof. rewrite cos_PI4. unfold Rdiv. ring. Qed.
Lemma sin_PI4' : sin (PI / 4) = / sqrt 2.
Proof. rewrite sin_PI4. unfold Rdiv. ring. Qed.

(* the generator description attached to a default gate *)
Definition gi (name : string) (args : list (arg R)) : ginfo R := mkGinfo (Some name) (Some args).

(* ------------------------------------------------------------------ *)
(** * what the table evaluates to (by computation) *)

Lemma I_eval q : default_gate RNum "I" [AQ q] = Ok (mk_bsr RNum q (1, 0, 0) 0 0, gi "I" [AQ q]).
Proof. reflexivity. Qed.
Lemma H_eval q : default_gate RNum "H" [AQ q] = Ok (mk_bsr RNum q (1, 0, 1) PI (PI / 2), gi "H" [AQ q]).
Proof. reflexivity. Qed.
Lemma X_eval q : default_gate RNum "X" [AQ q] = Ok (mk_bsr RNum q (1, 0, 0) PI (PI / 2), gi "X" [AQ q]).
Proof. reflexivity. Qed.
Lemma X90_eval q : default_gate RNum "X90" [AQ q] = Ok (mk_bsr RNum q (1, 0, 0) (PI / 2) 0, gi "X90" [AQ q]).
Proof. reflexivity. Qed.
Lemma mX90_eval q : default_gate RNum "mX90" [AQ q] = Ok (mk_bsr RNum q (1, 0, 0) (- PI / 2) 0, gi "mX90" [AQ q]).
Proof. reflexivity. Qed.
Lemma Y_eval q : default_gate RNum "Y" [AQ q] = Ok (mk_bsr RNum q (0, 1, 0) PI (PI / 2), gi "Y" [AQ q]).
Proof. reflexivity. Qed.
Lemma Y90_eval q : default_gate RNum "Y90" [AQ q] = Ok (mk_bsr RNum q (0, 1, 0) (PI / 2) 0, gi "Y90" [AQ q]).
Proof. reflexivity. Qed.
Lemma mY90_eval q : default_gate RNum "mY90" [AQ q] = Ok (mk_bsr RNum q (0, 1, 0) (- PI / 2) 0, gi "mY90" [AQ q]).
Proof. reflexivity. Qed.
Lemma Z_eval q : default_gate RNum "Z" [AQ q] = Ok (mk_bsr RNum q (0, 0, 1) PI (PI / 2), gi "Z" [AQ q]).
Proof. reflexivity. Qed.
Lemma S_eval q : default_gate RNum "S" [AQ q] = Ok (mk_bsr RNum q (0, 0, 1) (PI / 2) 0, gi "S" [AQ q]).
Proof. reflexivity. Qed.
Lemma Sdag_eval q : default_gate RNum "Sdag" [AQ q] = Ok (mk_bsr RNum q (0, 0, 1) (- PI / 2) 0, gi "Sdag" [AQ q]).
Proof. reflexivity. Qed.
Lemma T_eval q : default_gate RNum "T" [AQ q] = Ok (mk_bsr RNum q (0, 0, 1) (PI / 4) 0, gi "T" [AQ q]).
Proof. reflexivity. Qed.
Lemma Tdag_eval q : default_gate RNum "Tdag" [AQ q] = Ok (mk_bsr RNum q (0, 0, 1) (- PI / 4) 0, gi "Tdag" [AQ q]).
Proof. reflexivity. Qed.
Lemma Rx_eval q theta : default_gate RNum "Rx" [AQ q; AF theta] =
  Ok (mk_bsr RNum q (1, 0, 0) theta 0, gi "Rx" [AQ q; AF theta]).
Proof. reflexivity. Qed.
Lemma Ry_eval q theta : default_gate RNum "Ry" [AQ q; AF theta] =
  Ok (mk_bsr RNum q (0, 1, 0) theta 0, gi "Ry" [AQ q; AF theta]).
Proof. reflexivity. Qed.
Lemma Rz_eval q theta : default_gate RNum "Rz" [AQ q; AF theta] =
  Ok (mk_bsr RNum q (0, 0, 1) theta 0, gi "Rz" [AQ q; AF theta]).
Proof. reflexivity. Qed.

Definition with_info (r : result (gate R)) (i : ginfo R) : result (gate R * ginfo R) :=
  match r with Err er => Err er | Ok g => Ok (g, i) end.

Lemma CNOT_eval c t : default_gate RNum "CNOT" [AQ c; AQ t] =
  with_info (mk_ctrl c (mk_bsr RNum t (1, 0, 0) PI (PI / 2))) (gi "CNOT" [AQ c; AQ t]).
Proof. reflexivity. Qed.
Lemma CZ_eval c t : default_gate RNum "CZ" [AQ c; AQ t] =
  with_info (mk_ctrl c (mk_bsr RNum t (0, 0, 1) PI (PI / 2))) (gi "CZ" [AQ c; AQ t]).
Proof. reflexivity. Qed.
Lemma CR_eval c t theta : default_gate RNum "CR" [AQ c; AQ t; AF theta] =
  with_info (mk_ctrl c (mk_bsr RNum t (0, 0, 1) (normalize_angle RNum theta)
                                 (normalize_angle RNum theta / 2)))
            (gi "CR" [AQ c; AQ t; AF theta]).
Proof. reflexivity. Qed.
Lemma CRk_eval c t k : default_gate RNum "CRk" [AQ c; AQ t; AI k] =
  with_info (mk_ctrl c (mk_bsr RNum t (0, 0, 1) (normalize_angle RNum (2 * PI / pow2k RNum k))
                                 (normalize_angle RNum (2 * PI / pow2k RNum k) / 2)))
            (gi "CRk" [AQ c; AQ t; AI k]).
Proof. reflexivity. Qed.

Lemma mk_ctrl_bsr_ok c t (ax : axis3 R) a p : c <> t ->
  mk_ctrl c (BSR t ax a p) = Ok (Ctrl c (BSR t ax a p)).
Proof.
  intros Hne. apply mk_ctrl_ok_iff. cbn [gate_qubits znodup zmem].
  apply Z.eqb_neq in Hne. rewrite Hne. reflexivity.
Qed.

Lemma mk_ctrl_bsr_same c (ax : axis3 R) a p : mk_ctrl c (BSR c ax a p) = Err EValue.
Proof.
  apply mk_ctrl_err_iff. cbn [gate_qubits znodup zmem]. rewrite Z.eqb_refl. reflexivity.
Qed.

(* ------------------------------------------------------------------ *)
(** * parameter-free gates *)

(* [denotes name args q S]: the default gate is a BlochSphereRotation on q whose
   can1 matrix is S up to ONE global phase e^{i phi} *)
Definition denotes (name : string) (q : Z) (S : cmat) : Prop :=
  exists ax a p phi,
    default_gate RNum name [AQ q] = Ok (BSR q ax a p, gi name [AQ q]) /\
    can1 RNum ax a p = scale_mat (cis RNum phi) S.

(* the same with phi = 0, i.e. no global phase at all *)
Definition denotes_exact (name : string) (q : Z) (S : cmat) : Prop :=
  exists ax a p,
    default_gate RNum name [AQ q] = Ok (BSR q ax a p, gi name [AQ q]) /\
    can1 RNum ax a p = S.

Lemma exact_denotes name q a b c d :
  denotes_exact name q (m2 a b c d) -> denotes name q (m2 a b c d).
Proof.
  intros [ax [an [p [He Hc]]]]. exists ax, an, p, 0. split; [exact He|].
  rewrite scale_cis0. exact Hc.
Qed.

Lemma I_exact q : denotes_exact "I" q I_std.
Proof.
  exists (1, 0, 0), 0, 0. split.
  - rewrite I_eval, mk_bsr_RNum, mk_axis_x, norm_0. reflexivity.
  - rewrite can1_x. unfold Rx_std, I_std. rewrite scale_m2.
    replace (0 / 2) with 0 by field. rewrite cis_RNum, cos_0, sin_0.
    apply m2_ext; rewrite cmul_pair; apply pair_ext; ring.
Qed.

Lemma X_bsr q : mk_bsr RNum q (1, 0, 0) PI (PI / 2) = BSR q (1, 0, 0) PI (PI / 2).
Proof. rewrite mk_bsr_RNum, mk_axis_x, norm_PI, norm_PI2. reflexivity. Qed.

Lemma X_can1 : can1 RNum (1, 0, 0) PI (PI / 2) = X_std.
Proof.
  rewrite can1_x. unfold Rx_std, X_std. rewrite scale_m2.
  rewrite cis_RNum, cos_PI2, sin_PI2.
  apply m2_ext; rewrite cmul_pair; apply pair_ext; ring.
Qed.

Lemma X_exact q : denotes_exact "X" q X_std.
Proof.
  exists (1, 0, 0), PI, (PI / 2). split.
  - rewrite X_eval, X_bsr. reflexivity.
  - apply X_can1.
Qed.

Lemma Y_exact q : denotes_exact "Y" q Y_std.
Proof.
  exists (0, 1, 0), PI, (PI / 2). split.
  - rewrite Y_eval, mk_bsr_RNum, mk_axis_y, norm_PI, norm_PI2. reflexivity.
  - rewrite can1_y. unfold Ry_std, Y_std. rewrite scale_m2.
    rewrite cis_RNum, cos_PI2, sin_PI2.
    apply m2_ext; rewrite cmul_pair; apply pair_ext; ring.
Qed.

Lemma Z_bsr q : mk_bsr RNum q (0, 0, 1) PI (PI / 2) = BSR q (0, 0, 1) PI (PI / 2).
Proof. rewrite mk_bsr_RNum, mk_axis_z, norm_PI, norm_PI2. reflexivity. Qed.

Lemma Z_can1 : can1 RNum (0, 0, 1) PI (PI / 2) = Z_std.
Proof.
  rewrite can1_z_sym. unfold Rz_std, Z_std. rewrite scale_m2.
  rewrite cis_RNum, cos_PI2, sin_PI2.
  apply m2_ext; rewrite cmul_pair; apply pair_ext; ring.
Qed.

Lemma Z_exact q : denotes_exact "Z" q Z_std.
Proof.
  exists (0, 0, 1), PI, (PI / 2). split.
  - rewrite Z_eval, Z_bsr. reflexivity.
  - apply Z_can1.
Qed.

Lemma H_exact q : denotes_exact "H" q H_std.
Proof.
  exists (/ sqrt 2, 0, / sqrt 2), PI, (PI / 2). split.
  - rewrite H_eval, mk_bsr_RNum, mk_axis_h, norm_PI, norm_PI2. reflexivity.
  - apply can1_h.
Qed.

Lemma half_PI2 : PI / 2 / 2 = PI / 4.
Proof. field. Qed.
Lemma half_mPI2 : - PI / 2 / 2 = - (PI / 4).
Proof. field. Qed.

Lemma X90_exact q : denotes_exact "X90" q X90_std.
Proof.
  exists (1, 0, 0), (PI / 2), 0. split.
  - rewrite X90_eval, mk_bsr_RNum, mk_axis_x, norm_PI2, norm_0. reflexivity.
  - rewrite can1_x. unfold Rx_std, X90_std. rewrite scale_m2, !cmul_cis0_l.
    rewrite half_PI2, cos_PI4', sin_PI4'. reflexivity.
Qed.

Lemma mX90_exact q : denotes_exact "mX90" q mX90_std.
Proof.
  exists (1, 0, 0), (- PI / 2), 0. split.
  - rewrite mX90_eval, mk_bsr_RNum, mk_axis_x, norm_mPI2, norm_0. reflexivity.
  - rewrite can1_x. unfold Rx_std, mX90_std. rewrite scale_m2, !cmul_cis0_l.
    rewrite half_mPI2, cos_neg, sin_neg, cos_PI4', sin_PI4'.
    apply m2_ext; apply pair_ext; ring.
Qed.

Lemma Y90_exact q : denotes_exact "Y90" q Y90_std.
Proof.
  exists (0, 1, 0), (PI / 2), 0. split.
  - rewrite Y90_eval, mk_bsr_RNum, mk_axis_y, norm_PI2, norm_0. reflexivity.
  - rewrite can1_y. unfold Ry_std, Y90_std. rewrite scale_m2, !cmul_cis0_l.
    rewrite half_PI2, cos_PI4', sin_PI4'. reflexivity.
Qed.

Lemma mY90_exact q : denotes_exact "mY90" q mY90_std.
Proof.
  exists (0, 1, 0), (- PI / 2), 0. split.
  - rewrite mY90_eval, mk_bsr_RNum, mk_axis_y, norm_mPI2, norm_0. reflexivity.
  - rewrite can1_y. unfold Ry_std, mY90_std. rewrite scale_m2, !cmul_cis0_l.
    rewrite half_mPI2, cos_neg, sin_neg, cos_PI4', sin_PI4'.
    apply m2_ext; apply pair_ext; ring.
Qed.

(* the phase gates: the global phase is e^{-i a/2}, a the rotation angle *)
Lemma S_phase q : exists ax a p,
  default_gate RNum "S" [AQ q] = Ok (BSR q ax a p, gi "S" [AQ q]) /\
  can1 RNum ax a p = scale_mat (cis RNum (- (PI / 4))) S_std.
Proof.
  exists (0, 0, 1), (PI / 2), 0. split.
  - rewrite S_eval, mk_bsr_RNum, mk_axis_z, norm_PI2, norm_0. reflexivity.
  - rewrite can1_z. unfold phase_std, S_std. rewrite cos_PI2, sin_PI2.
    f_equal. f_equal. field.
Qed.

Lemma Sdag_phase q : exists ax a p,
  default_gate RNum "Sdag" [AQ q] = Ok (BSR q ax a p, gi "Sdag" [AQ q]) /\
  can1 RNum ax a p = scale_mat (cis RNum (PI / 4)) Sdag_std.
Proof.
  exists (0, 0, 1), (- PI / 2), 0. split.
  - rewrite Sdag_eval, mk_bsr_RNum, mk_axis_z, norm_mPI2, norm_0. reflexivity.
  - rewrite can1_z. unfold phase_std, Sdag_std.
    replace (- PI / 2) with (- (PI / 2)) by field.
    rewrite cos_neg, sin_neg, cos_PI2, sin_PI2.
    f_equal. f_equal. field.
Qed.

Lemma T_phase q : exists ax a p,
  default_gate RNum "T" [AQ q] = Ok (BSR q ax a p, gi "T" [AQ q]) /\
  can1 RNum ax a p = scale_mat (cis RNum (- (PI / 8))) T_std.
Proof.
  exists (0, 0, 1), (PI / 4), 0. split.
  - rewrite T_eval, mk_bsr_RNum, mk_axis_z, norm_PI4, norm_0. reflexivity.
  - rewrite can1_z. unfold T_std. f_equal. f_equal. field.
Qed.

Lemma Tdag_phase q : exists ax a p,
  default_gate RNum "Tdag" [AQ q] = Ok (BSR q ax a p, gi "Tdag" [AQ q]) /\
  can1 RNum ax a p = scale_mat (cis RNum (PI / 8)) Tdag_std.
Proof.
  exists (0, 0, 1), (- PI / 4), 0. split.
  - rewrite Tdag_eval, mk_bsr_RNum, mk_axis_z, norm_mPI4, norm_0. reflexivity.
  - rewrite can1_z. unfold Tdag_std.
    replace (- PI / 4) with (- (PI / 4)) by field.
    f_equal. f_equal. field.
Qed.

(* the uniform statements: every parameter-free default gate denotes its
   standard matrix up to one global phase *)
Lemma I_denotes q : denotes "I" q I_std.
Proof. apply exact_denotes, I_exact. Qed.
Lemma H_denotes q : denotes "H" q H_std.
Proof. apply exact_denotes, H_exact. Qed.
Lemma X_denotes q : denotes "X" q X_std.
Proof. apply exact_denotes, X_exact. Qed.
Lemma X90_denotes q : denotes "X90" q X90_std.
Proof. apply exact_denotes, X90_exact. Qed.
Lemma mX90_denotes q : denotes "mX90" q mX90_std.
Proof. apply exact_denotes, mX90_exact. Qed.
Lemma Y_denotes q : denotes "Y" q Y_std.
Proof. apply exact_denotes, Y_exact. Qed.
Lemma Y90_denotes q : denotes "Y90" q Y90_std.
Proof. apply exact_denotes, Y90_exact. Qed.
Lemma mY90_denotes q : denotes "mY90" q mY90_std.
Proof. apply exact_denotes, mY90_exact. Qed.
Lemma Z_denotes q : denotes "Z" q Z_std.
Proof. apply exact_denotes, Z_exact. Qed.
Lemma S_denotes q : denotes "S" q S_std.
Proof. destruct (S_phase q) as [ax [a [p H]]]. exists ax, a, p, (- (PI / 4)). exact H. Qed.
Lemma Sdag_denotes q : denotes "Sdag" q Sdag_std.
Proof. destruct (Sdag_phase q) as [ax [a [p H]]]. exists ax, a, p, (PI / 4). exact H. Qed.
Lemma T_denotes q : denotes "T" q T_std.
Proof. destruct (T_phase q) as [ax [a [p H]]]. exists ax, a, p, (- (PI / 8)). exact H. Qed.
Lemma Tdag_denotes q : denotes "Tdag" q Tdag_std.
Proof. destruct (Tdag_phase q) as [ax [a [p H]]]. exists ax, a, p, (PI / 8). exact H. Qed.

(* ------------------------------------------------------------------ *)
(** * rotations, for all theta: the standard matrix up to a sign *)

Lemma Rx_std_sign s t t' :
  cos (t' / 2) = s * cos (t / 2) -> sin (t' / 2) = s * sin (t / 2) ->
  Rx_std t' = scale_mat (s, 0) (Rx_std t).
Proof.
  intros Hc Hs. unfold Rx_std. rewrite scale_m2, Hc, Hs.
  apply m2_ext; rewrite cmul_pair; apply pair_ext; ring.
Qed.
Lemma Ry_std_sign s t t' :
  cos (t' / 2) = s * cos (t / 2) -> sin (t' / 2) = s * sin (t / 2) ->
  Ry_std t' = scale_mat (s, 0) (Ry_std t).
Proof.
  intros Hc Hs. unfold Ry_std. rewrite scale_m2, Hc, Hs.
  apply m2_ext; rewrite cmul_pair; apply pair_ext; ring.
Qed.
Lemma Rz_std_sign s t t' :
  cos (t' / 2) = s * cos (t / 2) -> sin (t' / 2) = s * sin (t / 2) ->
  Rz_std t' = scale_mat (s, 0) (Rz_std t).
Proof.
  intros Hc Hs. unfold Rz_std. rewrite scale_m2, Hc, Hs.
  apply m2_ext; rewrite cmul_pair; apply pair_ext; ring.
Qed.

Lemma Rx_denotes q theta : exists ax a p s,
  default_gate RNum "Rx" [AQ q; AF theta] = Ok (BSR q ax a p, gi "Rx" [AQ q; AF theta]) /\
  (s = 1 \/ s = -1) /\
  can1 RNum ax a p = scale_mat (s, 0) (Rx_std theta).
Proof.
  destruct (normalize_half theta) as [s [Hs [Hc Hsn]]].
  exists (1, 0, 0), (normalize_angle RNum theta), 0, s. split; [|split; [exact Hs|]].
  - rewrite Rx_eval, mk_bsr_RNum, mk_axis_x, norm_0. reflexivity.
  - rewrite can1_x. unfold Rx_std at 1. rewrite scale_cis0. fold (Rx_std (normalize_angle RNum theta)).
    apply Rx_std_sign; assumption.
Qed.

Lemma Ry_denotes q theta : exists ax a p s,
  default_gate RNum "Ry" [AQ q; AF theta] = Ok (BSR q ax a p, gi "Ry" [AQ q; AF theta]) /\
  (s = 1 \/ s = -1) /\
  can1 RNum ax a p = scale_mat (s, 0) (Ry_std theta).
Proof.
  destruct (normalize_half theta) as [s [Hs [Hc Hsn]]].
  exists (0, 1, 0), (normalize_angle RNum theta), 0, s. split; [|split; [exact Hs|]].
  - rewrite Ry_eval, mk_bsr_RNum, mk_axis_y, norm_0. reflexivity.
  - rewrite can1_y. unfold Ry_std at 1. rewrite scale_cis0. fold (Ry_std (normalize_angle RNum theta)).
    apply Ry_std_sign; assumption.
Qed.

Lemma Rz_denotes q theta : exists ax a p s,
  default_gate RNum "Rz" [AQ q; AF theta] = Ok (BSR q ax a p, gi "Rz" [AQ q; AF theta]) /\
  (s = 1 \/ s = -1) /\
  can1 RNum ax a p = scale_mat (s, 0) (Rz_std theta).
Proof.
  destruct (normalize_half theta) as [s [Hs [Hc Hsn]]].
  exists (0, 0, 1), (normalize_angle RNum theta), 0, s. split; [|split; [exact Hs|]].
  - rewrite Rz_eval, mk_bsr_RNum, mk_axis_z, norm_0. reflexivity.
  - rewrite can1_z_sym. unfold Rz_std at 1. rewrite scale_cis0. fold (Rz_std (normalize_angle RNum theta)).
    apply Rz_std_sign; assumption.
Qed.

(* ------------------------------------------------------------------ *)
(** * controlled gates: the target gate, exactly (no global phase) *)

Lemma CNOT_target_exact c t : c <> t -> exists ax a p,
  default_gate RNum "CNOT" [AQ c; AQ t] = Ok (Ctrl c (BSR t ax a p), gi "CNOT" [AQ c; AQ t]) /\
  can1 RNum ax a p = X_std.
Proof.
  intros Hne. exists (1, 0, 0), PI, (PI / 2). split; [|exact X_can1].
  rewrite CNOT_eval, X_bsr, mk_ctrl_bsr_ok by exact Hne. reflexivity.
Qed.

Lemma CZ_target_exact c t : c <> t -> exists ax a p,
  default_gate RNum "CZ" [AQ c; AQ t] = Ok (Ctrl c (BSR t ax a p), gi "CZ" [AQ c; AQ t]) /\
  can1 RNum ax a p = Z_std.
Proof.
  intros Hne. exists (0, 0, 1), PI, (PI / 2). split; [|exact Z_can1].
  rewrite CZ_eval, Z_bsr, mk_ctrl_bsr_ok by exact Hne. reflexivity.
Qed.

(* the phase a/2 of CR/CRk is always inside the identity range of normalize_angle,
   also when a is in (PI, PI + 1e-7) *)
Lemma norm_half_normalized x :
  normalize_angle RNum (normalize_angle RNum x / 2) = normalize_angle RNum x / 2.
Proof.
  pose proof (normalize_range x) as [H1 H2]. pose proof PI_bounds as [HP3 HP4].
  apply normalize_id. lra.
Qed.

Lemma ctrl_phase_target t theta :
  mk_bsr RNum t (0, 0, 1) (normalize_angle RNum theta) (normalize_angle RNum theta / 2) =
  BSR t (0, 0, 1) (normalize_angle RNum theta) (normalize_angle RNum theta / 2).
Proof. rewrite mk_bsr_RNum, mk_axis_z, normalize_idem, norm_half_normalized. reflexivity. Qed.

Lemma ctrl_phase_can1 theta :
  can1 RNum (0, 0, 1) (normalize_angle RNum theta) (normalize_angle RNum theta / 2) =
  phase_std theta.
Proof.
  rewrite can1_z.
  replace (normalize_angle RNum theta / 2 - normalize_angle RNum theta / 2) with 0 by ring.
  unfold phase_std. rewrite scale_cis0.
  destruct (normalize_cos_sin theta) as [-> ->]. reflexivity.
Qed.

(* target = diag(1, e^{i theta}) *)
Lemma CR_target_exact c t theta : c <> t -> exists ax a p,
  default_gate RNum "CR" [AQ c; AQ t; AF theta] =
    Ok (Ctrl c (BSR t ax a p), gi "CR" [AQ c; AQ t; AF theta]) /\
  can1 RNum ax a p = m2 (1, 0) (0, 0) (0, 0) (cos theta, sin theta).
Proof.
  intros Hne.
  exists (0, 0, 1), (normalize_angle RNum theta), (normalize_angle RNum theta / 2). split.
  - rewrite CR_eval, ctrl_phase_target, mk_ctrl_bsr_ok by exact Hne. reflexivity.
  - apply ctrl_phase_can1.
Qed.

(* 2 ** k as a real number *)
Lemma pow2k_RNum k : pow2k RNum k = powerRZ 2 k.
Proof.
  unfold pow2k. destruct k as [|p|p].
  - reflexivity.
  - change (Z.leb 0 (Z.pos p)) with true. cbv iota.
    change (nofZ RNum (2 ^ Z.pos p)) with (IZR (2 ^ Z.pos p)).
    cbn [powerRZ]. rewrite pow_IZR, positive_nat_Z. reflexivity.
  - change (Z.leb 0 (Z.neg p)) with false. cbv iota.
    change (ndiv RNum (nofZ RNum 1) (nofZ RNum (2 ^ (- Z.neg p))))
      with (1 / IZR (2 ^ Z.pos p)).
    cbn [powerRZ]. rewrite pow_IZR, positive_nat_Z. unfold Rdiv. ring.
Qed.

(* target = diag(1, e^{2 pi i / 2^k}), for every integer k (2^k is a real for k < 0) *)
Lemma CRk_target_exact c t k : c <> t -> exists ax a p,
  default_gate RNum "CRk" [AQ c; AQ t; AI k] =
    Ok (Ctrl c (BSR t ax a p), gi "CRk" [AQ c; AQ t; AI k]) /\
  can1 RNum ax a p =
    m2 (1, 0) (0, 0) (0, 0) (cos (2 * PI / powerRZ 2 k), sin (2 * PI / powerRZ 2 k)).
Proof.
  intros Hne. rewrite <- pow2k_RNum.
  exists (0, 0, 1), (normalize_angle RNum (2 * PI / pow2k RNum k)),
         (normalize_angle RNum (2 * PI / pow2k RNum k) / 2). split.
  - rewrite CRk_eval, ctrl_phase_target, mk_ctrl_bsr_ok by exact Hne. reflexivity.
  - apply ctrl_phase_can1.
Qed.

(* control = target is rejected by the ControlledGate constructor *)
Lemma CNOT_same_qubit c : default_gate RNum "CNOT" [AQ c; AQ c] = Err EValue.
Proof. rewrite CNOT_eval, mk_bsr_RNum, mk_ctrl_bsr_same. reflexivity. Qed.
Lemma CZ_same_qubit c : default_gate RNum "CZ" [AQ c; AQ c] = Err EValue.
Proof. rewrite CZ_eval, mk_bsr_RNum, mk_ctrl_bsr_same. reflexivity. Qed.
Lemma CR_same_qubit c theta : default_gate RNum "CR" [AQ c; AQ c; AF theta] = Err EValue.
Proof. rewrite CR_eval, mk_bsr_RNum, mk_ctrl_bsr_same. reflexivity. Qed.
Lemma CRk_same_qubit c k : default_gate RNum "CRk" [AQ c; AQ c; AI k] = Err EValue.
Proof. rewrite CRk_eval, mk_bsr_RNum, mk_ctrl_bsr_same. reflexivity. Qed.

Print Assumptions X_denotes.
Print Assumptions H_denotes.
Print Assumptions T_denotes.
Print Assumptions Rx_denotes.
Print Assumptions CNOT_target_exact.
Print Assumptions CR_target_exact.
Print Assumptions CRk_target_exact.
