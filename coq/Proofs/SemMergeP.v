(* SemMergeP.v — merging single-qubit rotations (Model/Merge.v, merge_single_qubit_gates) preserves the operation
   of a circuit, in the Kraus-operator semantics of Theory/Kraus.v (gates, measurements, resets, comments; every
   assignment of outcomes), at the idealised instance RNumX (rounding = identity), for runs in the exact regime.

   1. bits: putting one bit of an index [putbit]
   2. entries of a 2x2 operator lifted to the register [lift1_entry]; it is a one-operand matrix gate
      [lift1_as_mat]
   3. COMMUTATION: an operator that does not look at bit q [passive] commutes with every lifted operator on q
      [passive_commute]; every gate whose operands do not contain q is passive on q [gate_passive]; hence
      [lift1_commute_gate_partial] (matrix gates with distinct operands), [lift1_commute], [lift1_commute_stmt]
   4. the operator of the accumulator list [aop], replacing one accumulator [aop_set_left], [aop_set_right]
   5. accumulators in the exact regime [fine]; one composition [compose_sem]
   6. the hypothesis on the run [exact_run] and the loop invariant [flush_sem], [merge_loop_sem]
   7. the final flush [final_list_sem] and THE THEOREM [merge_same_operation]
   8. non-vacuity: [merge_same_operation_example] (one qubit: X, Y, measure, named X),
      [merge_same_operation_example2] (two qubits: an accumulator carried across a measurement of another qubit)
   9. [names_exact_named]; the regime hypothesis is needed [merge_same_operation_without_regime_refuted]. *)
From Coq Require Import Reals ZArith NArith List Bool Lia Lra Arith.
Import ListNotations.
From OSQ Require Import Num IR Bits Construct DefaultTable Matrix Check ABA Merge RTrig RNum SU2 Kraus.
From OSQ Require Import BitsP ConstructP MatrixP EmbedP ABAP ComposeP MergeP SemBaseP.
From OSQ Require RoundP.
From Coq Require String.
Close Scope string_scope.
Close Scope N_scope.
Close Scope R_scope.
Open Scope nat_scope.

Local Notation c0R := (czero RNum).
Local Notation c1R := (cone RNum).

(* ================================================================== *)
(* 1. bits                                                             *)

(* bit b of the index r *)
Definition tb (r : nat) (b : N) : bool := N.testbit (N.of_nat r) b.

(* the index r with bit q replaced by v *)
Definition putbit (q : N) (v : bool) (r : nat) : nat :=
  N.to_nat (expand_ket (N.of_nat r) (N.b2n v) [q]).

Lemma of_nat_putbit q v r : N.of_nat (putbit q v r) = expand_ket (N.of_nat r) (N.b2n v) [q].
Proof. unfold putbit. apply Nnat.N2Nat.id. Qed.

Lemma putbit_at q v r : tb (putbit q v r) q = v.
Proof.
  unfold tb. rewrite of_nat_putbit.
  rewrite (expand_ket_at (N.of_nat r) (N.b2n v) [q] 0 q); [|repeat constructor; intros []|reflexivity].
  cbn [N.of_nat]. apply N.b2n_bit0.
Qed.

Lemma putbit_other q v r b : b <> q -> tb (putbit q v r) b = tb r b.
Proof.
  intros Hb. unfold tb. rewrite of_nat_putbit. apply expand_ket_other. intros [E|[]]. now apply Hb.
Qed.

Lemma putbit_lt n q v r : (0 <= q < n)%Z -> r < zpow2 n -> putbit (Z.to_N q) v r < zpow2 n.
Proof.
  intros Hq Hr.
  assert (H : (expand_ket (N.of_nat r) (N.b2n v) [Z.to_N q] < 2 ^ Z.to_N n)%N).
  { apply expand_ket_lt.
    - intros x [<-|[]]. lia.
    - rewrite <- (of_nat_zpow2 n). lia. }
  rewrite <- (of_nat_zpow2 n), <- of_nat_putbit in H. lia.
Qed.

Lemma agreeb1_spec q r c :
  agreeb [q] (N.of_nat r) (N.of_nat c) = true <-> (forall b, b <> q -> tb r b = tb c b).
Proof.
  rewrite agreeb_spec. unfold tb. split.
  - intros H b Hb. apply H. intros [E|[]]. now apply Hb.
  - intros H b Hb. apply H. intros E. apply Hb. now left.
Qed.

Lemma putbit_agree q v r : agreeb [q] (N.of_nat r) (N.of_nat (putbit q v r)) = true.
Proof. apply agreeb1_spec. intros b Hb. symmetry. now apply putbit_other. Qed.

Lemma putbit_agree' q v r : agreeb [q] (N.of_nat (putbit q v r)) (N.of_nat r) = true.
Proof. apply agreeb1_spec. intros b Hb. now apply putbit_other. Qed.

Lemma putbit_unique q v r j :
  agreeb [q] (N.of_nat r) (N.of_nat j) = true -> tb j q = v -> j = putbit q v r.
Proof.
  intros Ha Hv. apply Nnat.Nat2N.inj. apply N.bits_inj. intros b.
  destruct (N.eq_dec b q) as [->|Hne].
  - change (tb j q = tb (putbit q v r) q). now rewrite putbit_at.
  - change (tb j b = tb (putbit q v r) b). rewrite putbit_other by exact Hne.
    symmetry. now apply (proj1 (agreeb1_spec q r j) Ha).
Qed.

(* ================================================================== *)
(* 2. entries of a lifted one-qubit operator                           *)

Lemma lift1_entry_div n q (U : matR) : (0 <= q < n)%Z -> wf_mat 2 U ->
  forall r c, r < zpow2 n -> c < zpow2 n ->
    mget RNum (lift1 n q U) r c =
    cmul RNum (cmul RNum (if Nat.eqb (r / zpow2 q / 2) (c / zpow2 q / 2) then c1R else c0R)
                         (mget RNum U ((r / zpow2 q) mod 2) ((c / zpow2 q) mod 2)))
              (if Nat.eqb (r mod zpow2 q) (c mod zpow2 q) then c1R else c0R).
Proof.
  intros Hq HU r c Hr Hc. unfold lift1.
  rewrite <- (zpow2_split n q Hq) in Hr, Hc.
  pose proof (zpow2_pos q) as Hlo.
  set (hi := zpow2 (n - q - 1)) in *. set (lo := zpow2 q) in *.
  assert (HA : shape (hi * 2) (hi * 2) (kron RNum (eye RNum hi) U))
    by (apply shape_kron; [apply shape_eye|exact HU]).
  rewrite (mget_kron RNum _ _ _ _ _ _ r c HA (shape_eye RNum lo) Hr Hc).
  assert (Hr2 : r / lo < hi * 2) by (apply Nat.div_lt_upper_bound; lia).
  assert (Hc2 : c / lo < hi * 2) by (apply Nat.div_lt_upper_bound; lia).
  rewrite (mget_kron RNum _ _ _ _ _ _ _ _ (shape_eye RNum hi) HU Hr2 Hc2).
  rewrite mget_eye by (apply Nat.div_lt_upper_bound; lia).
  rewrite mget_eye by (apply Nat.mod_upper_bound; lia).
  reflexivity.
Qed.

(* identity on every other qubit, U on bit q of the row and column index *)
Lemma lift1_entry n q (U : matR) : (0 <= q < n)%Z -> wf_mat 2 U ->
  forall r c, r < zpow2 n -> c < zpow2 n ->
    mget RNum (lift1 n q U) r c =
    if agreeb [Z.to_N q] (N.of_nat r) (N.of_nat c)
    then mget RNum U (N.to_nat (N.b2n (tb r (Z.to_N q)))) (N.to_nat (N.b2n (tb c (Z.to_N q))))
    else c0R.
Proof.
  intros Hq HU r c Hr Hc. rewrite (lift1_entry_div n q U Hq HU r c Hr Hc).
  rewrite <- (Z_nat_N q), agreeb_single. unfold tb. rewrite <- !reduced_ket_single, !reduced_ket_single_nat.
  unfold zpow2, agree_except, nbit. rewrite !div_pow2_succ.
  destruct (Nat.eqb (r / 2 ^ (Z.to_nat q + 1)) (c / 2 ^ (Z.to_nat q + 1))); cbn [andb].
  - destruct (Nat.eqb (r mod 2 ^ Z.to_nat q) (c mod 2 ^ Z.to_nat q)).
    + now rewrite cmulR_1_l, cmulR_1_r.
    + now rewrite cmulR_0_r.
  - now rewrite cmulR_0_l, cmulR_0_l.
Qed.

(* a lifted one-qubit operator is the one-operand matrix gate of its 2x2 matrix *)
Lemma lift1_as_mat n q (U : matR) : (0 <= q < n)%Z -> wf_mat 2 U ->
  get_matrix RNum n (Mat U [q]) = Ok (lift1 n q U).
Proof.
  intros Hq HU.
  destruct (get_matrix_mat_spec RNum n U [q]) as [M2 [HM2 [Hwf2 Hent2]]].
  - repeat constructor. intros [].
  - intros q' [<-|[]]. exact Hq.
  - exact HU.
  - rewrite HM2. f_equal. apply (mat_ext RNum _ _ _ _ Hwf2 (lift1_wf n q U Hq HU)).
    intros r c Hr Hc. rewrite (Hent2 r c Hr Hc), (lift1_entry n q U Hq HU r c Hr Hc).
    unfold tb. rewrite <- !reduced_ket_single. reflexivity.
Qed.

(* ================================================================== *)
(* 3. commutation                                                      *)

(* M does not look at bit q of the index: no entry between indices whose bits q differ, and the entry between two
   indices with equal bits q does not change when the bits q of both are changed together *)
Definition passive (q : N) (d : nat) (M : matR) : Prop :=
  (forall r c, r < d -> c < d -> tb r q <> tb c q -> mget RNum M r c = c0R) /\
  (forall r c r' c', r < d -> c < d -> r' < d -> c' < d ->
     agreeb [q] (N.of_nat r) (N.of_nat r') = true -> agreeb [q] (N.of_nat c) (N.of_nat c') = true ->
     tb r q = tb c q -> tb r' q = tb c' q -> mget RNum M r c = mget RNum M r' c').

Lemma zpow2_gt0 n : 0 < zpow2 n.
Proof. apply MatrixP.zpow2_pos. Qed.

Theorem passive_commute n q (U M : matR) :
  (0 <= q < n)%Z -> wf_mat 2 U -> wf_mat (zpow2 n) M -> passive (Z.to_N q) (zpow2 n) M ->
  mmul RNum (lift1 n q U) M = mmul RNum M (lift1 n q U).
Proof.
  intros Hq HU HM [P1 P2]. pose proof (zpow2_gt0 n) as Hd. pose proof (lift1_wf n q U Hq HU) as HL.
  set (d := zpow2 n) in *. set (qn := Z.to_N q) in *.
  apply (mat_ext RNum d d); [now apply wf_mmul|now apply wf_mmul|].
  intros r c Hr Hc.
  rewrite (mget_mmul RNum d d d _ _ r c Hd HL HM Hr Hc), (mget_mmul RNum d d d _ _ r c Hd HM HL Hr Hc).
  set (k := putbit qn (tb c qn) r). set (k' := putbit qn (tb r qn) c).
  assert (Hk : k < d) by (apply putbit_lt; assumption).
  assert (Hk' : k' < d) by (apply putbit_lt; assumption).
  rewrite (csumR_single d _ k Hk).
  2:{ intros j Hj Hne. rewrite (lift1_entry n q U Hq HU r j Hr Hj). fold qn.
      destruct (agreeb [qn] (N.of_nat r) (N.of_nat j)) eqn:Ea; [|apply cmulR_0_l].
      rewrite (P1 j c Hj Hc); [apply cmulR_0_r|].
      intros E. apply Hne. now apply putbit_unique. }
  rewrite (csumR_single d _ k' Hk').
  2:{ intros j Hj Hne. rewrite (lift1_entry n q U Hq HU j c Hj Hc). fold qn.
      destruct (agreeb [qn] (N.of_nat j) (N.of_nat c)) eqn:Ea; [|apply cmulR_0_r].
      rewrite (P1 r j Hr Hj); [apply cmulR_0_l|].
      intros E. apply Hne. apply putbit_unique; [now rewrite agreeb_sym|now symmetry]. }
  rewrite (lift1_entry n q U Hq HU r k Hr Hk), (lift1_entry n q U Hq HU k' c Hk' Hc). fold qn.
  unfold k at 1. rewrite putbit_agree. unfold k' at 2. rewrite putbit_agree'.
  unfold k at 1. unfold k' at 2. rewrite !putbit_at.
  rewrite (P2 k c r k' Hk Hc Hr Hk').
  - apply cmulR_comm.
  - apply putbit_agree'.
  - apply putbit_agree.
  - apply putbit_at.
  - symmetry. apply putbit_at.
Qed.

(* a gate is passive on every qubit outside its operands *)
Theorem gate_passive n (g : gate R) (M : matR) q :
  (0 <= q)%Z -> ~ In q (gate_qubits g) -> mat_ops_nodup g -> get_matrix RNum n g = Ok M ->
  passive (Z.to_N q) (zpow2 n) M.
Proof.
  intros Hq Hnin Hnd HM.
  pose proof (get_matrix_ok_range RNum n g M HM) as Hrange.
  assert (HninN : ~ In (Z.to_N q) (qsN g)).
  { unfold qsN. rewrite in_map_toN; [exact Hnin| |exact Hq]. intros z Hz. pose proof (Hrange z Hz). lia. }
  split.
  - intros r c Hr Hc Hbits. apply (get_matrix_local n g M r c HM Hnd Hr Hc).
    apply not_true_is_false. intros Ha. apply Hbits. unfold tb.
    now apply (proj1 (agreeb_spec _ _ _) Ha).
  - intros r c r' c' Hr Hc Hr' Hc' Har Hac Eb Eb'.
    assert (HM' : get_matrix RNum n (map_gate_qubits (fun x => x) g) = Ok M) by now rewrite map_gate_qubits_id.
    pose proof (proj1 (agreeb1_spec _ _ _) Har) as Hr1. pose proof (proj1 (agreeb1_spec _ _ _) Hac) as Hc1.
    apply (get_matrix_transport_eq_gen RNum (fun x => x) n n g M M r c r' c' (leaves_ok_R g) HM HM' Hnd);
      try assumption.
    + intros x y _ _ E. exact E.
    + intros z Hz. symmetry. apply Hr1. intros E. apply HninN. rewrite <- E. now apply in_map.
    + intros z Hz. symmetry. apply Hc1. intros E. apply HninN. rewrite <- E. now apply in_map.
    + rewrite map_gate_qubits_id. apply eq_true_iff_eq. rewrite !agreeb_spec.
      split; intros H b Hb; destruct (N.eq_dec b (Z.to_N q)) as [->|Hne].
      * exact Eb'.
      * change (tb r' b = tb c' b). rewrite <- (Hr1 b Hne), <- (Hc1 b Hne). now apply H.
      * exact Eb.
      * change (tb r b = tb c b). rewrite (Hr1 b Hne), (Hc1 b Hne). now apply H.
Qed.

(* 1b. a one-qubit operator on q commutes with every gate that does not have q among its operands
   (controlled gates, matrix gates, rotations on other qubits).
   PARTIAL: the statement asked for is

     lift1_commute_gate n q U g M : ~ In q (gate_qubits g) -> get_matrix RNum n g = Ok M ->
       0 <= q < n -> wf_mat 2 U -> mmul (lift1 n q U) M = mmul M (lift1 n q U)

   and it is proved here under the additional hypothesis [mat_ops_nodup g]: the operand lists of the matrix
   gates inside g have no repetition (what the constructor mk_mat enforces; controlled gates need no condition).
   What is missing for the full statement is an entry-wise description of [mat_column] for operand lists WITH
   repetitions (MatrixP.get_matrix_mat_spec, on which EmbedP.get_matrix_local / get_matrix_transport rest,
   assumes NoDup ops); no counterexample is known. *)
Theorem lift1_commute_gate_partial n q (U : matR) (g : gate R) (M : matR) :
  ~ In q (gate_qubits g) -> mat_ops_nodup g -> get_matrix RNum n g = Ok M ->
  (0 <= q < n)%Z -> wf_mat 2 U ->
  mmul RNum (lift1 n q U) M = mmul RNum M (lift1 n q U).
Proof.
  intros Hnin Hnd HM Hq HU. apply passive_commute; try assumption.
  - exact (get_matrix_wf RNum n g M HM).
  - apply (gate_passive n g M q); try assumption. lia.
Qed.

(* 1a. operators on two different qubits commute *)
Theorem lift1_commute n q q' (U V : matR) :
  q <> q' -> (0 <= q < n)%Z -> (0 <= q' < n)%Z -> wf_mat 2 U -> wf_mat 2 V ->
  mmul RNum (lift1 n q U) (lift1 n q' V) = mmul RNum (lift1 n q' V) (lift1 n q U).
Proof.
  intros Hne Hq Hq' HU HV.
  apply (lift1_commute_gate_partial n q U (Mat V [q']) (lift1 n q' V)); try assumption.
  - intros [E|[]]. now apply Hne.
  - repeat constructor. intros [].
  - now apply lift1_as_mat.
Qed.

(* the statements of a circuit: matrix gates with distinct operands *)
Definition ops_nodup (ir : list (stmt R)) : Prop :=
  forall o g gi, In (SGate o g gi) ir -> mat_ops_nodup g.

Definition stmt_nodup (s : stmt R) : Prop := match s with SGate _ g _ => mat_ops_nodup g | _ => True end.

(* 1c. ... and with the operator of every statement that does not touch q, for every outcome *)
Theorem lift1_commute_stmt n o k (s : stmt R) (M U : matR) q :
  fst (stmt_op n o k s) = Ok (Some M) -> ~ In q (stmt_qubits s) -> stmt_nodup s ->
  (0 <= q < n)%Z -> wf_mat 2 U ->
  mmul RNum (lift1 n q U) M = mmul RNum M (lift1 n q U).
Proof.
  destruct s as [oid g gi|oid q' b ax gi|oid q' gi|t]; cbn [stmt_op fst stmt_qubits stmt_nodup];
    intros H Hnin Hnd Hq HU.
  - destruct (get_matrix RNum n g) as [G|e] eqn:EG; [|discriminate]. injection H as <-.
    now apply (lift1_commute_gate_partial n q U g G).
  - destruct (embed1 n q' (proj_axis ax (o k))) as [P|e] eqn:EP; [|discriminate]. injection H as <-.
    apply embed1_ok_lift1 in EP. destruct EP as [Hq' ->].
    apply lift1_commute; try assumption; [|apply proj_axis_wf]. intros E. apply Hnin. now left.
  - destruct (embed1 n q' (reset_op (o k))) as [P|e] eqn:EP; [|discriminate]. injection H as <-.
    apply embed1_ok_lift1 in EP. destruct EP as [Hq' ->].
    apply lift1_commute; try assumption; [|apply reset_op_wf]. intros E. apply Hnin. now left.
  - discriminate.
Qed.

(* ================================================================== *)
(* 4. the operator of the accumulators                                 *)

Notation G := (gate R * ginfo R)%type.

(* the 2x2 matrix of a rotation *)
Definition gmat (g : gate R) : matR :=
  match g with BSR _ ax an ph => can1 RNum ax an ph | _ => eye RNum 2 end.

Lemma gmat_wf g : wf_mat 2 (gmat g).
Proof. destruct g; cbn [gmat]; [apply shape_can1|apply shape_eye|apply shape_eye]. Qed.

(* accumulator x sitting at position k, on the register *)
Definition aL (n : Z) (k : nat) (x : G) : matR := lift1 n (Z.of_nat k) (gmat (fst x)).

(* the accumulators at positions k, k+1, ... applied in this order (any order would do: they commute) *)
Fixpoint aop (n : Z) (k : nat) (a : list G) : matR :=
  match a with
  | [] => eye RNum (zpow2 n)
  | x :: a' => mmul RNum (aop n (S k) a') (aL n k x)
  end.

Section Aop.
  Variable n : Z.
  Let d := zpow2 n.
  Let Hd : 0 < d := zpow2_gt0 n.

  Lemma mm_assoc (A B C : matR) : wf_mat d A -> wf_mat d B -> wf_mat d C ->
    mmul RNum (mmul RNum A B) C = mmul RNum A (mmul RNum B C).
  Proof. intros HA HB HC. exact (mmul_assoc d d d d A B C Hd Hd HA HB HC). Qed.

  Lemma mm_eye_l (A : matR) : wf_mat d A -> mmul RNum (eye RNum d) A = A.
  Proof. intros HA. exact (mmul_eye_l d d A Hd HA). Qed.

  Lemma mm_eye_r (A : matR) : wf_mat d A -> mmul RNum A (eye RNum d) = A.
  Proof. intros HA. exact (mmul_eye_r d d A Hd HA). Qed.

  Lemma in_range k : k < Z.to_nat n -> (0 <= Z.of_nat k < n)%Z.
  Proof. lia. Qed.

  Lemma aL_wf k x : k < Z.to_nat n -> wf_mat d (aL n k x).
  Proof. intros Hk. apply lift1_wf; [now apply in_range|apply gmat_wf]. Qed.

  Lemma aop_wf : forall a k, k + length a <= Z.to_nat n -> wf_mat d (aop n k a).
  Proof.
    induction a as [|x a IH]; intros k Hk; cbn [aop length] in *; [apply shape_eye|].
    apply wf_mmul; [apply IH; lia|apply aL_wf; lia].
  Qed.

  (* what commutes with every accumulator commutes with their product *)
  Lemma aop_commute : forall a k (M : matR),
    k + length a <= Z.to_nat n -> wf_mat d M ->
    (forall i x, nth_error a i = Some x -> mmul RNum (aL n (k + i) x) M = mmul RNum M (aL n (k + i) x)) ->
    mmul RNum (aop n k a) M = mmul RNum M (aop n k a).
  Proof.
    induction a as [|x a IH]; intros k M Hk HM Hc; cbn [aop length] in *.
    - now rewrite mm_eye_l, mm_eye_r.
    - assert (HA : wf_mat d (aop n (S k) a)) by (apply aop_wf; lia).
      assert (HL : wf_mat d (aL n k x)) by (apply aL_wf; lia).
      assert (E0 : mmul RNum (aL n k x) M = mmul RNum M (aL n k x)).
      { specialize (Hc 0 x eq_refl). now rewrite Nat.add_0_r in Hc. }
      assert (E1 : mmul RNum (aop n (S k) a) M = mmul RNum M (aop n (S k) a)).
      { apply IH; [lia|exact HM|]. intros i y Hy. replace (S k + i) with (k + S i) by lia. now apply Hc. }
      rewrite mm_assoc, E0, <- mm_assoc, E1, mm_assoc by assumption. reflexivity.
  Qed.

  (* an operator on a qubit below k commutes with the accumulators from k on *)
  Lemma aop_commute_low a k j (U : matR) :
    j < k -> k + length a <= Z.to_nat n -> wf_mat 2 U ->
    mmul RNum (aop n k a) (lift1 n (Z.of_nat j) U) = mmul RNum (lift1 n (Z.of_nat j) U) (aop n k a).
  Proof.
    intros Hj Hk HU. apply aop_commute; [exact Hk|apply lift1_wf; [apply in_range; lia|exact HU]|].
    intros i x Hx. assert (Hi : i < length a) by (apply nth_error_Some; congruence).
    unfold aL. apply lift1_commute; try (apply in_range; lia); [lia|apply gmat_wf|exact HU].
  Qed.

  (* replacing accumulator i: a factor split off to the right (towards the emitted output) ... *)
  Lemma aop_set_right : forall a k i x y (U : matR),
    k + length a <= Z.to_nat n -> nth_error a i = Some x -> wf_mat 2 U ->
    gmat (fst x) = mmul RNum (gmat (fst y)) U ->
    aop n k a = mmul RNum (aop n k (acc_set a i y)) (lift1 n (Z.of_nat (k + i)) U).
  Proof.
    induction a as [|x0 a IH]; intros k i x y U Hk Hx HU E; [destruct i; discriminate|].
    cbn [length] in Hk.
    assert (HA : forall b, length b = length a -> wf_mat d (aop n (S k) b)) by (intros b Hb; apply aop_wf; lia).
    destruct i as [|i]; cbn [nth_error] in Hx; cbn [acc_set aop].
    - injection Hx as ->. rewrite Nat.add_0_r.
      assert (HLy : wf_mat d (aL n k y)) by (apply aL_wf; lia).
      assert (HLU : wf_mat d (lift1 n (Z.of_nat k) U)) by (apply lift1_wf; [apply in_range; lia|exact HU]).
      rewrite mm_assoc by (try apply HA; auto). f_equal.
      unfold aL. rewrite E. symmetry. apply lift1_mmul; [apply in_range; lia|apply gmat_wf|exact HU].
    - assert (Hi : i < length a) by (apply nth_error_Some; congruence).
      rewrite (IH (S k) i x y U ltac:(lia) Hx HU E).
      replace (S k + i) with (k + S i) by lia.
      assert (HLU : wf_mat d (lift1 n (Z.of_nat (k + S i)) U)) by (apply lift1_wf; [apply in_range; lia|exact HU]).
      assert (HL0 : wf_mat d (aL n k x0)) by (apply aL_wf; lia).
      assert (HAs : wf_mat d (aop n (S k) (acc_set a i y))) by (apply HA; apply acc_set_length).
      rewrite !mm_assoc by assumption. f_equal.
      unfold aL. apply lift1_commute; try (apply in_range; lia); [lia|exact HU|apply gmat_wf].
  Qed.

  (* ... or to the left (towards the consumed input) *)
  Lemma aop_set_left : forall a k i x y (U : matR),
    k + length a <= Z.to_nat n -> nth_error a i = Some x -> wf_mat 2 U ->
    gmat (fst y) = mmul RNum U (gmat (fst x)) ->
    aop n k (acc_set a i y) = mmul RNum (lift1 n (Z.of_nat (k + i)) U) (aop n k a).
  Proof.
    induction a as [|x0 a IH]; intros k i x y U Hk Hx HU E; [destruct i; discriminate|].
    cbn [length] in Hk.
    assert (HA : wf_mat d (aop n (S k) a)) by (apply aop_wf; lia).
    destruct i as [|i]; cbn [nth_error] in Hx; cbn [acc_set aop].
    - injection Hx as ->. rewrite Nat.add_0_r.
      assert (HLx : wf_mat d (aL n k x)) by (apply aL_wf; lia).
      assert (HLU : wf_mat d (lift1 n (Z.of_nat k) U)) by (apply lift1_wf; [apply in_range; lia|exact HU]).
      unfold aL at 1. rewrite E.
      rewrite <- (lift1_mmul n (Z.of_nat k) U (gmat (fst x)) ltac:(apply in_range; lia) HU (gmat_wf _)).
      fold (aL n k x).
      rewrite <- mm_assoc by assumption.
      rewrite (aop_commute_low a (S k) k U ltac:(lia) ltac:(lia) HU).
      now rewrite mm_assoc by assumption.
    - assert (Hi : i < length a) by (apply nth_error_Some; congruence).
      rewrite (IH (S k) i x y U ltac:(lia) Hx HU E).
      replace (S k + i) with (k + S i) by lia.
      assert (HLU : wf_mat d (lift1 n (Z.of_nat (k + S i)) U)) by (apply lift1_wf; [apply in_range; lia|exact HU]).
      assert (HL0 : wf_mat d (aL n k x0)) by (apply aL_wf; lia).
      now rewrite mm_assoc by assumption.
  Qed.
End Aop.

(* ================================================================== *)
(* 5. accumulators in the exact regime; one composition                *)

Open Scope R_scope.

(* an accumulator the proof can work with: a rotation about a unit axis which, if it passes the tolerance test
   [is_identity] (|angle| < ATOL and |phase| < ATOL), has angle exactly 0 *)
Definition fine (x : G) : Prop :=
  match fst x with
  | BSR _ ax an _ => unit_axis ax /\ (is_identity RNumX (fst x) = true -> an = 0)
  | _ => False
  end.

Lemma unit_axis_100 : unit_axis (1, 0, 0).
Proof. unfold unit_axis, ax_x, ax_y, ax_z; cbn [fst snd]; ring. Qed.

Lemma ident_X q : ident RNumX q = (BSR q (1, 0, 0) 0 0, snd (ident RNumX q)).
Proof. rewrite ident_eq, bsr_identity_X, bsr_identity_R. reflexivity. Qed.

Lemma is_identity_id0 q ax : is_identity RNumX (BSR q ax 0 0) = true.
Proof.
  rewrite is_identity_bsr_X. cbn [is_identity]. rewrite atol_RNum. rnum_cbn.
  assert (E : Rltb (Rabs 0) (/ 10000000) = true) by (apply Rltb_true; rewrite Rabs_R0; lra).
  now rewrite E.
Qed.

Lemma is_identity_ident q : is_identity RNumX (fst (ident RNumX q)) = true.
Proof. rewrite ident_X. apply is_identity_id0. Qed.

Lemma fine_ident q : fine (ident RNumX q).
Proof. rewrite ident_X. unfold fine. cbn [fst]. split; [apply unit_axis_100|reflexivity]. Qed.

Lemma eye2_qone : eye RNum 2 = qmat qone.
Proof. rewrite <- mscale_one_qone. apply mscale_one. Qed.

(* a rotation by the angle 0 is a phase times the identity *)
Lemma can1_angle0 ax ph : can1 RNum ax 0 ph = mscale (cis RNum ph) (eye RNum 2).
Proof. rewrite can1_phase, qrot_0, eye2_qone. reflexivity. Qed.

Lemma gmat_ident q : gmat (fst (ident RNumX q)) = eye RNum 2.
Proof.
  rewrite ident_X. cbn [fst gmat]. rewrite can1_angle0, cis_0. apply mscale_one.
Qed.

Lemma fine_scalar x : fine x -> is_identity RNumX (fst x) = true ->
  exists z, unit_c z /\ gmat (fst x) = mscale z (eye RNum 2).
Proof.
  unfold fine. destruct (fst x) as [q ax an ph|c g|m ops]; try contradiction.
  intros [_ H0] Hi. rewrite (H0 Hi). exists (cis RNum ph). split; [apply unit_c_cis|apply can1_angle0].
Qed.

(* outside the shortcut the composed rotation does not pass the identity test *)
Lemma not_identity_of_sin q ax gamma ph :
  ATOL <= sin (gamma / 2) -> is_identity RNumX (BSR q ax (normalize_angle RNum gamma) ph) = false.
Proof.
  intros Hs. rewrite is_identity_bsr_X. cbn [is_identity]. rewrite atol_RNum. rnum_cbn.
  apply andb_false_iff. left. apply Rltb_false.
  destruct (normalize_half gamma) as [s [Hsg [_ Hsin]]].
  pose proof (RoundP.Rabs_sin_le (normalize_angle RNum gamma / 2)) as Hle.
  rewrite Hsin in Hle. pose proof ATOL_pos as Hat. unfold ATOL in *.
  assert (E1 : Rabs (s * sin (gamma / 2)) = sin (gamma / 2)).
  { rewrite Rabs_mult, (Rabs_pos_eq (sin (gamma / 2))) by lra.
    assert (Hm : Rabs (-1) = 1) by (rewrite <- Rabs_Ropp; replace (- -1) with 1 by ring; apply Rabs_R1).
    destruct Hsg as [-> | ->]; [rewrite Rabs_R1|rewrite Hm]; ring. }
  assert (E2 : Rabs (normalize_angle RNum gamma / 2) = Rabs (normalize_angle RNum gamma) / 2).
  { unfold Rdiv. rewrite Rabs_mult, (Rabs_pos_eq (/ 2)) by lra. reflexivity. }
  rewrite E1, E2 in Hle. lra.
Qed.

Lemma mscale_conj_cancel z (A B : matR) : unit_c z -> mscale z A = B -> A = mscale (cconj RNum z) B.
Proof.
  intros Hz <-. rewrite mscale_mscale, unit_c_conj_inv by exact Hz. symmetry. apply mscale_one.
Qed.

(* the rotation (ax, ang, ph) composed onto the accumulator x, in the exact regime: the result is again a fine
   accumulator and its matrix is the product of the two, up to a global phase *)
Theorem compose_sem q ax ang ph gi (x : G) axb angb phb :
  fst x = BSR q axb angb phb -> fine x -> unit_axis ax -> compose_regime ax axb ang angb ->
  let y := compose RNumX q ax ang ph gi axb angb phb (snd x) in
  fine y /\
  exists z, unit_c z /\ gmat (fst y) = mmul RNum (mscale z (can1 RNum ax ang ph)) (gmat (fst x)).
Proof.
  intros Ex Hf Ha Hreg y. unfold fine in Hf. rewrite Ex in Hf. destruct Hf as [Hb _].
  rewrite Ex. cbn [gmat]. pose proof ATOL_pos as Hat.
  destruct (compose_exact_cases q ax ang ph gi axb angb phb (snd x) Ha Hb Hreg)
    as [(Hs & Hc & _) | (Hs & Hc & Hu & _)].
  - destruct (compose_matrix_shortcut_partial q ax ang ph gi axb angb phb (snd x) Ha Hb Hs)
      as (ax' & ang' & ph' & phi & E & _ & HM).
    unfold y. rewrite Hc in *. cbn [fst] in *. injection E as <- <- <-. split.
    + unfold fine. cbn [fst]. split; [apply unit_axis_100|reflexivity].
    + exists (cconj RNum (cis RNum phi)). split; [apply unit_c_conj, unit_c_cis|].
      cbn [gmat]. rewrite mmul_mscale_l. apply mscale_conj_cancel; [apply unit_c_cis|exact HM].
  - destruct (compose_matrix q ax ang ph gi axb angb phb (snd x) Ha Hb Hs)
      as (ax' & ang' & ph' & sg & E & Hsg & HM).
    unfold y. rewrite Hc in *. cbn [fst] in *. injection E as <- <- <-. split.
    + unfold fine. cbn [fst]. split; [exact Hu|]. intros Hi.
      rewrite (not_identity_of_sin q _ _ _ Hs) in Hi. discriminate.
    + exists (sg, 0). split.
      * unfold unit_c. cbn [fst snd]. destruct Hsg as [-> | ->]; ring.
      * cbn [gmat]. rewrite mmul_mscale_l. exact HM.
Qed.
Close Scope R_scope.

(* ================================================================== *)
(* 6. the run of the pass                                              *)

(* the accumulators after flushing the qubits qs (the first component of [flush]) *)
Fixpoint flush_accs (a : list G) (qs : list Z) : list G :=
  match qs with
  | [] => a
  | q :: qs' =>
      match acc_get a q with
      | None => a
      | Some x => if is_identity RNumX (fst x) then flush_accs a qs'
                  else flush_accs (acc_set a (Z.to_nat q) (ident RNumX q)) qs'
      end
  end.

(* renaming by try_name in the final flush (which only checks closeness within np.isclose's tolerance) is exact,
   up to a global phase, on the accumulators that are emitted *)
Definition names_exact (a : list G) : Prop :=
  Forall (fun x => is_identity RNumX (fst x) = false ->
                   mequiv (gmat (fst (fname RNumX x))) (gmat (fst x))) a.

(* THE HYPOTHESIS ON THE RUN, following [merge_loop] from the accumulators a on the input ir:
   - every rotation statement has a unit axis,
   - every composition the loop performs is in the exact regime of ComposeP.compose_exact_cases
     ([compose_regime]: the shortcut test |sin(gamma/2)| < ATOL fires only when sin(gamma/2) = 0),
   - at the end, renaming is exact on the accumulators left ([names_exact]). *)
Fixpoint exact_run (a : list G) (ir : list (stmt R)) : Prop :=
  match ir with
  | [] => names_exact a
  | SComment _ :: rest => exact_run a rest
  | SGate _ (BSR q ax ang ph) gi :: rest =>
      unit_axis ax /\
      match acc_get a q with
      | None => True
      | Some x =>
          match fst x with BSR _ axb angb _ => compose_regime ax axb ang angb | _ => True end /\
          match compose_gates RNumX (BSR q ax ang ph, gi) x with
          | Ok y => exact_run (acc_set a (Z.to_nat q) y) rest
          | Err _ => True
          end
      end
  | s :: rest => exact_run (flush_accs a (stmt_qubits s)) rest
  end.

Lemma exact_run_barrier a (s : stmt R) rest :
  is_barrier s = true -> exact_run a (s :: rest) = exact_run (flush_accs a (stmt_qubits s)) rest.
Proof.
  destruct s as [o [q ax an ph|c g|m ops] gi|o q b ax gi|o q gi|t];
    cbn [is_barrier is_bsr_stmt is_comment negb andb]; intros H; try discriminate; reflexivity.
Qed.

Lemma flush_accs_eq qs : forall (a : list G) next out a' next' out',
  flush RNumX a next qs out = Ok (a', next', out') -> a' = flush_accs a qs.
Proof.
  induction qs as [|q qs IH]; intros a next out a' next' out' H; cbn [flush flush_accs] in *.
  - now injection H as <- _ _.
  - destruct (acc_get a q) as [x|]; [|discriminate].
    destruct (is_identity RNumX (fst x)); eapply IH; exact H.
Qed.

Lemma Forall_acc_set (P : G -> Prop) : forall (a : list G) i y, Forall P a -> P y -> Forall P (acc_set a i y).
Proof.
  induction a as [|x a IH]; intros i y Ha Hy; cbn [acc_set]; [constructor|].
  inversion Ha as [|? ? Hx Ha']; subst.
  destruct i; constructor; auto.
Qed.

Lemma acc_get_Forall (P : G -> Prop) (a : list G) q x : Forall P a -> acc_get a q = Some x -> P x.
Proof.
  intros Ha E. unfold acc_get in E. destruct (Z.ltb q 0); [discriminate|].
  rewrite Forall_forall in Ha. apply Ha. eapply nth_error_In. exact E.
Qed.

Lemma ops_nodup_cons s ir : ops_nodup (s :: ir) -> stmt_nodup s /\ ops_nodup ir.
Proof.
  intros H. split.
  - destruct s as [o g gi| | |]; cbn [stmt_nodup]; auto. apply (H o g gi). now left.
  - intros o g gi Hin. apply (H o g gi). now right.
Qed.

Lemma barrier_op_some n o k (s : stmt R) : is_barrier s = true -> fst (stmt_op n o k s) <> Ok None.
Proof.
  destruct s as [oid g gi|oid q b ax gi|oid q gi|t]; cbn [stmt_op fst]; intros Hb.
  - destruct (get_matrix RNum n g); discriminate.
  - destruct (embed1 n q (proj_axis ax (o k))); discriminate.
  - destruct (embed1 n q (reset_op (o k))); discriminate.
  - discriminate.
Qed.

Lemma effects_cons s l : effects (s :: l) = effects [s] ++ effects l.
Proof. change (s :: l) with ([s] ++ l). apply effects_app. Qed.

Section Loop.
  Variable n : Z.
  Local Notation d := (zpow2 n).
  Let Hd : 0 < d := zpow2_gt0 n.
  Local Notation I := (eye RNum d).

  Lemma kraus_gate_bsr o k acc oid q ax an ph gi rest : (0 <= q < n)%Z ->
    kraus_from n o k acc (SGate oid (BSR q ax an ph) gi :: rest) =
    kraus_from n o k (mmul RNum (lift1 n q (can1 RNum ax an ph)) acc) rest.
  Proof. intros Hq. cbn [kraus_from stmt_op]. now rewrite (get_matrix_bsr_lift1 n q ax an ph Hq). Qed.

  (* flushing: the emitted rotations followed by the accumulators left are the accumulators before, exactly;
     afterwards every flushed qubit has an accumulator that passes the identity test *)
  Lemma flush_sem qs : forall (a : list G) next out a' next' out',
    flush RNumX a next qs out = Ok (a', next', out') ->
    accs_on 0 a -> Forall fine a -> length a <= Z.to_nat n ->
    Forall fine a' /\
    (forall q x, In q qs -> acc_get a' q = Some x -> is_identity RNumX (fst x) = true) /\
    exists em E, out' = rev em ++ out /\ nonunitary em = 0 /\ effects em = [] /\
      (forall o k, kraus_from n o k I em = Ok E) /\ wf_mat d E /\
      mmul RNum (aop n 0 a') E = aop n 0 a.
  Proof.
    induction qs as [|q qs IH]; intros a next out a' next' out' H Ha Hf Hlen.
    - cbn [flush] in H. injection H as <- _ <-. split; [exact Hf|]. split; [intros q x []|].
      exists [], I. do 4 (split; [reflexivity|]). split; [apply shape_eye|].
      apply mm_eye_r. apply aop_wf. cbn [Nat.add]. exact Hlen.
    - pose proof H as H0. cbn [flush] in H.
      destruct (acc_get a q) as [x|] eqn:E; [|discriminate].
      pose proof (acc_get_some _ _ _ E) as Hr. pose proof (acc_get_on _ _ _ Ha E) as Hx.
      destruct (is_identity RNumX (fst x)) eqn:Ei.
      + destruct (IH _ _ _ _ _ _ H Ha Hf Hlen) as (A & B & C). split; [exact A|]. split; [|exact C].
        intros q0 x0 [<-|Hin] E0; [|now apply (B q0)].
        destruct (flush_q RNumX qs _ _ _ _ _ _ q x H Ha E) as [Q _].
        rewrite (qflush_id RNumX q x qs Ei) in Q. cbn [snd] in Q. congruence.
      + set (a1 := acc_set a (Z.to_nat q) (ident RNumX q)) in *.
        assert (Ha1 : accs_on 0 a1).
        { apply accs_on_set; [exact Ha|]. cbn [Nat.add]. rewrite Z2Nat.id by lia. apply ident_on. }
        assert (Hf1 : Forall fine a1) by (apply Forall_acc_set; [exact Hf|apply fine_ident]).
        assert (Hlen1 : length a1 <= Z.to_nat n) by (unfold a1; now rewrite acc_set_length).
        destruct (IH _ _ _ _ _ _ H Ha1 Hf1 Hlen1) as (A & B & em1 & E1 & C1 & C2 & C3 & C4 & C5 & C6).
        split; [exact A|]. split.
        * intros q0 x0 [<-|Hin] E0; [|now apply (B q0)].
          assert (Eg : acc_get a1 q = Some (ident RNumX q)) by (eapply acc_get_set_same; exact E).
          destruct (flush_q RNumX qs _ _ _ _ _ _ q _ H Ha1 Eg) as [Q _].
          rewrite (qflush_id RNumX q _ qs (is_identity_ident q)) in Q. cbn [snd] in Q.
          assert (x0 = ident RNumX q) by congruence. subst x0. apply is_identity_ident.
        * destruct Hx as (axb & anb & phb & Ex).
          assert (Hq : (0 <= q < n)%Z) by lia.
          set (L := lift1 n q (can1 RNum axb anb phb)).
          assert (HL : wf_mat d L) by (apply lift1_wf; [exact Hq|apply shape_can1]).
          exists (SGate next (fst x) (snd x) :: em1), (mmul RNum E1 L).
          split; [rewrite C1; cbn [rev]; now rewrite <- app_assoc|].
          split; [exact C2|]. split; [exact C3|]. split; [|split; [now apply wf_mmul|]].
          -- intros o k. rewrite Ex, (kraus_gate_bsr o k _ _ _ _ _ _ _ _ Hq). fold L.
             rewrite (kraus_from_acc n o em1 k _ (wf_mmul RNum d _ _ HL (shape_eye RNum d))).
             rewrite (C4 o k). now rewrite mm_eye_r.
          -- assert (HA' : wf_mat d (aop n 0 a')).
             { apply aop_wf. cbn [Nat.add].
               destruct (flush_struct RNumX _ _ _ _ _ _ _ H0 Ha) as (_ & -> & _). exact Hlen. }
             rewrite <- (mm_assoc n (aop n 0 a') E1 L HA' C5 HL). rewrite C6.
             assert (En : nth_error a (Z.to_nat q) = Some x).
             { unfold acc_get in E. destruct (Z.ltb q 0); [discriminate|exact E]. }
             rewrite (aop_set_right n a 0 (Z.to_nat q) x (ident RNumX q) (gmat (fst x)) Hlen En (gmat_wf _)).
             ++ cbn [Nat.add]. rewrite Z2Nat.id by lia. rewrite Ex. reflexivity.
             ++ rewrite gmat_ident. symmetry. apply (mmul_eye_l 2 2); [lia|apply gmat_wf].
  Qed.

  (* the accumulators left by a flush of the operands of s commute with the operator of s *)
  Lemma aop_commute_stmt (a : list G) o k (s : stmt R) (M : matR) :
    accs_on 0 a -> Forall fine a -> length a <= Z.to_nat n ->
    (forall q x, In q (stmt_qubits s) -> acc_get a q = Some x -> is_identity RNumX (fst x) = true) ->
    stmt_nodup s -> fst (stmt_op n o k s) = Ok (Some M) ->
    mmul RNum (aop n 0 a) M = mmul RNum M (aop n 0 a).
  Proof.
    intros Ha Hf Hlen Hid Hnd HM.
    pose proof (stmt_op_wf n o k s M HM) as HMwf.
    apply aop_commute; [exact Hlen|exact HMwf|].
    intros i x Hx. cbn [Nat.add].
    assert (Hi : i < length a) by (apply nth_error_Some; congruence).
    assert (Hq : (0 <= Z.of_nat i < n)%Z) by lia.
    assert (Eg : acc_get a (Z.of_nat i) = Some x).
    { unfold acc_get. destruct (Z.ltb_spec (Z.of_nat i) 0); [lia|]. now rewrite Nat2Z.id. }
    destruct (in_dec Z.eq_dec (Z.of_nat i) (stmt_qubits s)) as [Hin|Hnin].
    - destruct (fine_scalar x (acc_get_Forall fine a _ x Hf Eg) (Hid _ x Hin Eg)) as (z & _ & Ez).
      unfold aL. rewrite Ez, (lift1_mscale n _ z _ (shape_eye RNum 2)), (lift1_eye n _ Hq).
      rewrite mmul_mscale_l, mmul_mscale_r. f_equal. now rewrite mm_eye_l, mm_eye_r.
    - unfold aL. apply (lift1_commute_stmt n o k s M _ (Z.of_nat i) HM Hnin Hnd Hq). apply gmat_wf.
  Qed.

  (* THE INVARIANT of the loop: the emitted output followed by the accumulators is the consumed input preceded
     by the accumulators it started from, up to a global phase, for every outcome assignment *)
  Theorem merge_loop_sem : forall ir (a : list G) next out a' next' out',
    merge_loop RNumX a next ir out = Ok (a', next', out') ->
    accs_on 0 a -> Forall fine a -> length a <= Z.to_nat n ->
    ops_nodup ir -> exact_run a ir ->
    Forall fine a' /\ names_exact a' /\
    exists em, out' = rev em ++ out /\ effects em = effects ir /\
      forall o k K, kraus_from n o k I ir = Ok K ->
        exists E, kraus_from n o k I em = Ok E /\
                  mequiv (mmul RNum (aop n 0 a') E) (mmul RNum K (aop n 0 a)).
  Proof.
    induction ir as [|s ir IH]; intros a next out a' next' out' H Ha Hf Hlen Hnd Hex.
    - cbn [merge_loop] in H. injection H as <- _ <-. cbn [exact_run] in Hex.
      split; [exact Hf|]. split; [exact Hex|]. exists []. split; [reflexivity|]. split; [reflexivity|].
      intros o k K HK. cbn [kraus_from] in HK. injection HK as <-. exists I. split; [reflexivity|].
      assert (HA : wf_mat d (aop n 0 a)) by (apply aop_wf; exact Hlen).
      rewrite mm_eye_l, mm_eye_r by exact HA. apply mequiv_refl.
    - destruct (ops_nodup_cons _ _ Hnd) as [Hnds Hndr].
      destruct (stmt_cases s) as [(t & ->)|[(oid & q & ax & an & ph & gi & ->)|Hb]].
      + (* comment *)
        rewrite merge_loop_comment in H. cbn [exact_run] in Hex.
        destruct (IH _ _ _ _ _ _ H Ha Hf Hlen Hndr Hex) as (A & B & em & C1 & C2 & C3).
        split; [exact A|]. split; [exact B|]. exists (SComment t :: em).
        split; [rewrite C1; cbn [rev]; now rewrite <- app_assoc|]. split; [exact C2|].
        intros o k K HK. cbn [kraus_from stmt_op] in *. now apply C3.
      + (* rotation *)
        rewrite merge_loop_rot in H. cbn [exact_run] in Hex. destruct Hex as [Hax Hex].
        destruct (acc_get a q) as [x|] eqn:E; [|discriminate].
        destruct Hex as [Hreg Hex].
        destruct (compose_gates RNumX (BSR q ax an ph, gi) x) as [y|e] eqn:Ec; [|discriminate].
        pose proof (acc_get_some _ _ _ E) as Hr.
        destruct (acc_get_on _ _ _ Ha E) as (axb & anb & phb & Ex).
        rewrite Ex in Hreg.
        assert (Ey : y = compose RNumX q ax an ph gi axb anb phb (snd x)).
        { unfold compose_gates in Ec. cbn [fst snd] in Ec. rewrite Ex, Z.eqb_refl in Ec. now injection Ec as <-. }
        pose proof (acc_get_Forall fine a q x Hf E) as Hfx.
        destruct (compose_sem q ax an ph gi x axb anb phb Ex Hfx Hax Hreg) as [Hfy (z & Hz & Emat)].
        rewrite <- Ey in Hfy, Emat.
        set (a1 := acc_set a (Z.to_nat q) y) in *.
        assert (Ha1 : accs_on 0 a1).
        { apply accs_on_set; [exact Ha|]. cbn [Nat.add]. rewrite Z2Nat.id by lia. rewrite Ey. apply compose_on. }
        assert (Hf1 : Forall fine a1) by (apply Forall_acc_set; assumption).
        assert (Hlen1 : length a1 <= Z.to_nat n) by (unfold a1; now rewrite acc_set_length).
        destruct (IH _ _ _ _ _ _ H Ha1 Hf1 Hlen1 Hndr Hex) as (A & B & em & C1 & C2 & C3).
        split; [exact A|]. split; [exact B|]. exists em. split; [exact C1|]. split; [exact C2|].
        intros o k K HK.
        assert (Hq : (0 <= q < n)%Z) by lia.
        rewrite (kraus_gate_bsr o k _ _ _ _ _ _ _ _ Hq) in HK.
        set (U := can1 RNum ax an ph) in *. set (L := lift1 n q U) in *.
        assert (HU : wf_mat 2 U) by apply shape_can1.
        assert (HL : wf_mat d L) by (apply lift1_wf; assumption).
        rewrite (kraus_from_acc n o ir k _ (wf_mmul RNum d _ _ HL (shape_eye RNum d))) in HK.
        destruct (kraus_from n o k I ir) as [K'|e] eqn:EK'; [|discriminate]. injection HK as <-.
        pose proof (kraus_from_wf n o ir k I K' (shape_eye RNum d) EK') as HK'.
        destruct (C3 o k K' EK') as (E0 & HE0 & Heq). exists E0. split; [exact HE0|].
        assert (HA : wf_mat d (aop n 0 a)) by (apply aop_wf; exact Hlen).
        assert (En : nth_error a (Z.to_nat q) = Some x).
        { unfold acc_get in E. destruct (Z.ltb q 0); [discriminate|exact E]. }
        assert (E1 : aop n 0 a1 = mscale z (mmul RNum L (aop n 0 a))).
        { unfold a1. rewrite (aop_set_left n a 0 (Z.to_nat q) x y (mscale z U) Hlen En (mscale_wf z 2 U HU) Emat).
          cbn [Nat.add]. rewrite Z2Nat.id by lia. rewrite (lift1_mscale n q z U HU). fold L.
          apply mmul_mscale_l. }
        rewrite E1, mmul_mscale_r in Heq.
        eapply mequiv_trans; [exact Heq|]. eapply mequiv_trans; [apply mequiv_mscale; exact Hz|].
        rewrite (mm_eye_r n L HL), (mm_assoc n K' L (aop n 0 a) HK' HL HA). apply mequiv_refl.
      + (* barrier *)
        rewrite (merge_loop_barrier RNumX _ _ _ _ _ Hb) in H. rewrite (exact_run_barrier _ _ _ Hb) in Hex.
        destruct (flush RNumX a next (stmt_qubits s) out) as [[[a1 next1] out1]|e] eqn:Ef; [|discriminate].
        destruct (flush_struct RNumX _ _ _ _ _ _ _ Ef Ha) as (Ha1 & Hl1 & _).
        rewrite <- (flush_accs_eq _ _ _ _ _ _ _ Ef) in Hex.
        destruct (flush_sem _ _ _ _ _ _ _ Ef Ha Hf Hlen) as (Hf1 & Hid & emf & Ef0 & F1 & F2 & F3 & F4 & F5 & F6).
        assert (Hlen1 : length a1 <= Z.to_nat n) by now rewrite Hl1.
        destruct (IH _ _ _ _ _ _ H Ha1 Hf1 Hlen1 Hndr Hex) as (A & B & em & C1 & C2 & C3).
        split; [exact A|]. split; [exact B|]. exists (emf ++ s :: em). split; [|split].
        * rewrite C1, F1, rev_app_distr. cbn [rev]. now rewrite <- !app_assoc.
        * rewrite effects_app, F3. cbn [app]. now rewrite (effects_cons s em), (effects_cons s ir), C2.
        * intros o k K HK. rewrite kraus_from_cons in HK. rewrite kraus_from_app, (F4 o k), F2, Nat.add_0_r.
          rewrite kraus_from_cons.
          destruct (fst (stmt_op n o k s)) as [[M|]|e] eqn:Eop; [|now destruct (barrier_op_some n o k s Hb)|discriminate].
          pose proof (stmt_op_wf n o k s M Eop) as HM.
          rewrite (kraus_from_acc n o ir _ _ (wf_mmul RNum d _ _ HM (shape_eye RNum d))) in HK.
          destruct (kraus_from n o (k + nonunitary [s]) I ir) as [K'|e] eqn:EK'; [|discriminate]. injection HK as <-.
          pose proof (kraus_from_wf n o ir _ I K' (shape_eye RNum d) EK') as HK'.
          destruct (C3 o _ K' EK') as (E0 & HE0 & Heq).
          pose proof (kraus_from_wf n o em _ I E0 (shape_eye RNum d) HE0) as HE0wf.
          rewrite (kraus_from_acc n o em _ _ (wf_mmul RNum d _ _ HM F5)), HE0.
          eexists. split; [reflexivity|].
          assert (HA : wf_mat d (aop n 0 a)) by (apply aop_wf; exact Hlen).
          assert (HA1 : wf_mat d (aop n 0 a1)) by (apply aop_wf; exact Hlen1).
          assert (HA' : wf_mat d (aop n 0 a')).
          { apply aop_wf. cbn [Nat.add].
            destruct (merge_loop_struct RNumX _ _ _ _ _ _ _ H Ha1) as (_ & -> & _). exact Hlen1. }
          pose proof (aop_commute_stmt a1 o k s M Ha1 Hf1 Hlen1 Hid Hnds Eop) as Hcomm.
          rewrite mm_eye_r by exact HM.
          (* aop a' * (E0 * (M * Ef)) ~ (K' * aop a1) * (M * Ef) = K' * M * (aop a1 * Ef) = (K' * M) * aop a *)
          rewrite <- (mm_assoc n (aop n 0 a') E0 (mmul RNum M Ef0) HA' HE0wf (wf_mmul RNum d _ _ HM F5)).
          eapply mequiv_trans; [apply mequiv_mmul_r; exact Heq|]. apply mequiv_eq.
          rewrite (mm_assoc n K' (aop n 0 a1) _ HK' HA1 (wf_mmul RNum d _ _ HM F5)).
          rewrite <- (mm_assoc n (aop n 0 a1) M Ef0 HA1 HM F5), Hcomm.
          rewrite (mm_assoc n M (aop n 0 a1) Ef0 HM HA1 F5), F6.
          now rewrite (mm_assoc n K' M (aop n 0 a) HK' HM HA).
  Qed.
End Loop.

(* ================================================================== *)
(* 7. the final flush and the theorem                                  *)

Section Final.
  Variable n : Z.
  Local Notation d := (zpow2 n).
  Local Notation I := (eye RNum d).

  (* what the final flush appends is the accumulators, up to a global phase *)
  Lemma final_list_sem : forall (a : list G) k next,
    accs_on k a -> Forall fine a -> k + length a <= Z.to_nat n -> names_exact a ->
    effects (final_list RNumX a next) = [] /\
    exists F, (forall o j, kraus_from n o j I (final_list RNumX a next) = Ok F) /\
              wf_mat d F /\ mequiv F (aop n k a).
  Proof.
    induction a as [|x a IH]; intros k next Ha Hf Hlen Hnm; cbn [final_list aop].
    - split; [reflexivity|]. exists I. split; [reflexivity|]. split; [apply shape_eye|apply mequiv_refl].
    - cbn [length] in Hlen. destruct Ha as [Hx Ha].
      inversion Hf as [|? ? Hfx Hf']; subst. inversion Hnm as [|? ? Hnx Hnm']; subst.
      assert (Hq : (0 <= Z.of_nat k < n)%Z) by lia.
      assert (HA : wf_mat d (aop n (S k) a)) by (apply aop_wf; lia).
      destruct (is_identity RNumX (fst x)) eqn:Ei.
      + destruct (IH (S k) next Ha Hf' ltac:(lia) Hnm') as (A & F & B1 & B2 & B3).
        split; [exact A|]. exists F. split; [exact B1|]. split; [exact B2|].
        destruct (fine_scalar x Hfx Ei) as (z & Hz & Ez).
        unfold aL. rewrite Ez, (lift1_mscale n _ z _ (shape_eye RNum 2)), (lift1_eye n _ Hq).
        rewrite mmul_mscale_r, (mm_eye_r n _ HA).
        eapply mequiv_trans; [exact B3|]. apply mequiv_sym, mequiv_mscale, Hz.
      + destruct (IH (S k) (Pos.succ next) Ha Hf' ltac:(lia) Hnm') as (A & F & B1 & B2 & B3).
        destruct (fname_on RNumX x _ Hx) as (ax' & an' & ph' & En).
        set (L := lift1 n (Z.of_nat k) (gmat (fst (fname RNumX x)))).
        assert (HL : wf_mat d L) by (apply lift1_wf; [exact Hq|apply gmat_wf]).
        split; [rewrite En; exact A|]. exists (mmul RNum F L). split; [|split; [now apply wf_mmul|]].
        * intros o j. rewrite En.
          cbn [kraus_from stmt_op]. rewrite (get_matrix_bsr_lift1 n _ ax' an' ph' Hq).
          change (can1 RNum ax' an' ph') with (gmat (BSR (Z.of_nat k) ax' an' ph')). rewrite <- En. fold L.
          rewrite (kraus_from_acc n o _ j _ (wf_mmul RNum d _ _ HL (shape_eye RNum d))), (B1 o j).
          now rewrite (mm_eye_r n L HL).
        * apply mequiv_mmul; [exact B3|]. unfold L, aL. apply lift1_mequiv; [apply gmat_wf|now apply Hnx].
  Qed.

  (* the initial accumulators are the identity *)
  Lemma aop_init : forall m k, k + m <= Z.to_nat n ->
    aop n k (map (fun i => ident RNumX (Z.of_nat i)) (seq k m)) = I.
  Proof.
    induction m as [|m IH]; intros k Hk; cbn [seq map aop]; [reflexivity|].
    rewrite IH by lia. unfold aL. rewrite gmat_ident, lift1_eye by lia.
    apply (mm_eye_l n). apply shape_eye.
  Qed.

  Lemma fine_init : forall m k, Forall fine (map (fun i => ident RNumX (Z.of_nat i)) (seq k m)).
  Proof. induction m as [|m IH]; intros k; cbn [seq map]; constructor; [apply fine_ident|apply IH]. Qed.
End Final.

(* THE THEOREM.  At the idealised instance RNumX, for a run in the exact regime [exact_run] (unit axes, exact
   shortcut tests, exact renaming) on a circuit whose matrix gates have distinct operands: the output of
   merge_single_qubit_gates does the same operation as its input - same measurements and resets in the same
   order, and for every assignment of outcomes for which the input denotes an operator, the output denotes the
   same operator up to a global phase.  Multi-qubit gates, measurements, resets and comments in any mix;
   accumulators are carried across the barriers that do not touch their qubit (commutation). *)
Theorem merge_same_operation n (ir out : list (stmt R)) :
  ops_nodup ir -> exact_run (acc0 RNumX n) ir ->
  merge RNumX n ir = Ok out -> same_operation n ir out.
Proof.
  intros Hnd Hex H.
  destruct (merge_unfold RNumX _ _ _ H) as (a & next & out0 & E & ->).
  pose proof (acc0_on RNumX n) as Ha0. pose proof (acc0_length RNumX n) as Hl0.
  assert (Hlen0 : length (acc0 RNumX n) <= Z.to_nat n) by lia.
  destruct (merge_loop_sem n ir _ _ _ _ _ _ E Ha0 (fine_init (Z.to_nat n) 0) Hlen0 Hnd Hex) as (Hf & Hnm & em & C1 & C2 & C3).
  destruct (merge_loop_struct RNumX _ _ _ _ _ _ _ E Ha0) as (Ha & Hl & _).
  rewrite app_nil_r in C1. rewrite C1, rev_involutive.
  assert (Hlen : 0 + length a <= Z.to_nat n) by (cbn [Nat.add]; lia).
  destruct (final_list_sem n a 0 next Ha Hf Hlen Hnm) as (F1 & F & F2 & F3 & F4).
  split.
  - rewrite effects_app, F1, C2. apply app_nil_r.
  - intros o A HA. unfold kraus in *.
    destruct (C3 o 0 A HA) as (E0 & HE0 & Heq).
    pose proof (kraus_from_wf n o em 0 _ E0 (shape_eye RNum _) HE0) as HE0wf.
    rewrite kraus_from_app, HE0, (kraus_from_acc n o _ _ E0 HE0wf), (F2 o _).
    eexists. split; [reflexivity|].
    eapply mequiv_trans; [apply mequiv_mmul_r; exact F4|].
    eapply mequiv_trans; [exact Heq|]. apply mequiv_eq.
    unfold acc0. rewrite (aop_init n _ 0) by (cbn [Nat.add]; lia).
    apply (mm_eye_r n). exact (kraus_from_wf n o ir 0 _ A (shape_eye RNum _) HA).
Qed.

(* ================================================================== *)
(* 8. non-vacuity: X (anonymous), Y (anonymous), a measurement along z, a named X on one qubit *)

Import String.
Open Scope R_scope.

Definition ex_gi : ginfo R := mkGinfo (Some "X"%string) (Some [AQ 0%Z]).
Definition ex_ir : list (stmt R) :=
  [ SGate 1%positive (BSR 0 (1, 0, 0) PI 0) anon;
    SGate 2%positive (BSR 0 (0, 1, 0) PI 0) anon;
    SMeasure 3%positive 0 0 (0, 0, 1) anon;
    SGate 4%positive (BSR 0 (1, 0, 0) PI 0) ex_gi ].

(* compositions whose quaternion product has scalar part 0: the composed angle is PI *)
Lemma cgamma_cW0 a b alpha beta : cW a b alpha beta = 0 -> cgamma a b alpha beta = PI.
Proof. intros H. unfold cgamma. rewrite H, acos_0. field. Qed.

Lemma regime_cW0 a b alpha beta : cW a b alpha beta = 0 -> compose_regime a b alpha beta.
Proof. intros H. right. rewrite (cgamma_cW0 _ _ _ _ H), sin_PI2, Rabs_R1. unfold ATOL. lra. Qed.

Lemma compose_cW0 q a alpha pha gia b beta phb gib :
  unit_axis a -> unit_axis b -> cW a b alpha beta = 0 ->
  compose RNumX q a alpha pha gia b beta phb gib =
  (BSR q (cV a b alpha beta) PI (normalize_angle RNum (pha + phb)),
   if is_identity RNum (BSR q a alpha pha) then gib
   else if is_identity RNum (BSR q b beta phb) then gia else anon).
Proof.
  intros Ha Hb H. pose proof (cgamma_cW0 _ _ _ _ H) as Hg.
  destruct (compose_exact_cases q a alpha pha gia b beta phb gib Ha Hb (regime_cW0 _ _ _ _ H))
    as [(Hs & _) | (_ & Hc & _)].
  - rewrite Hg, sin_PI2 in Hs. lra.
  - rewrite Hc. f_equal. unfold caxis. rewrite Hg, sin_PI2.
    assert (Hn : normalize_angle RNum PI = PI) by (apply normalize_id; pose proof PI_bounds; lra).
    rewrite Hn. f_equal. destruct (cV a b alpha beta) as [[x y] z]. unfold ax_x, ax_y, ax_z. cbn [fst snd].
    f_equal; [f_equal|]; field.
Qed.

Lemma unit_axis_010 : unit_axis (0, 1, 0).
Proof. unfold unit_axis, ax_x, ax_y, ax_z; cbn [fst snd]; ring. Qed.

Lemma ex_cW1 : cW (1, 0, 0) (1, 0, 0) PI 0 = 0.
Proof. unf_geom. replace (0 / 2) with 0 by field. rewrite cos_PI2, sin_PI2, cos_0, sin_0. ring. Qed.

Lemma ex_cV1 : cV (1, 0, 0) (1, 0, 0) PI 0 = (1, 0, 0).
Proof.
  unf_geom. replace (0 / 2) with 0 by field. rewrite cos_PI2, sin_PI2, cos_0, sin_0.
  f_equal; [f_equal|]; ring.
Qed.

Lemma ex_cW2 : cW (0, 1, 0) (1, 0, 0) PI PI = 0.
Proof. unf_geom. rewrite cos_PI2, sin_PI2. ring. Qed.

Lemma not_identity_PI q ax ph : is_identity RNumX (BSR q ax PI ph) = false.
Proof.
  rewrite is_identity_bsr_X. cbn [is_identity]. rewrite atol_RNum. rnum_cbn.
  apply andb_false_iff. left. apply Rltb_false. pose proof PI_bounds. rewrite Rabs_pos_eq; lra.
Qed.

(* one step of the run predicate: a rotation on qubit 0 *)
Lemma exact_run_rot1 (x : G) (a : list G) o ax ang ph gi rest axb angb phb :
  fst x = BSR 0 axb angb phb -> unit_axis ax -> compose_regime ax axb ang angb ->
  exact_run (compose RNumX 0 ax ang ph gi axb angb phb (snd x) :: a) rest ->
  exact_run (x :: a) (SGate o (BSR 0 ax ang ph) gi :: rest).
Proof.
  intros Ex Hax Hreg Hrest. cbn [exact_run]. split; [exact Hax|].
  change (acc_get (x :: a) 0) with (Some x). cbv beta iota. rewrite Ex. split; [exact Hreg|].
  unfold compose_gates. cbn [fst snd]. rewrite Ex. cbn [Z.eqb]. exact Hrest.
Qed.

Lemma exact_run_measure a o q b ax gi rest :
  exact_run a (SMeasure o q b ax gi :: rest) = exact_run (flush_accs a [q]) rest.
Proof. reflexivity. Qed.

Lemma ex_exact_run : exact_run (acc0 RNumX 1) ex_ir.
Proof.
  change (acc0 RNumX 1) with [ident RNumX 0]. unfold ex_ir. rewrite ident_X.
  (* X onto the identity *)
  eapply (exact_run_rot1 _ _ _ _ _ _ _ _ (1, 0, 0) 0 0);
    [reflexivity|exact unit_axis_100|exact (regime_cW0 _ _ _ _ ex_cW1)|]. cbn [snd].
  rewrite (compose_cW0 0 _ _ _ _ _ _ _ _ unit_axis_100 unit_axis_100 ex_cW1), ex_cV1.
  (* Y onto X *)
  eapply (exact_run_rot1 _ _ _ _ _ _ _ _ (1, 0, 0) PI);
    [reflexivity|exact unit_axis_010|exact (regime_cW0 _ _ _ _ ex_cW2)|]. cbn [snd].
  rewrite (compose_cW0 0 _ _ _ _ _ _ _ _ unit_axis_010 unit_axis_100 ex_cW2).
  (* the measurement flushes Y.X, which is not an identity *)
  rewrite exact_run_measure. cbn [flush_accs].
  match goal with |- context [acc_get [?y] 0%Z] => change (acc_get [y] 0%Z) with (Some y) end.
  cbn [fst]. rewrite not_identity_PI. cbn [acc_set Z.to_nat flush_accs]. rewrite ident_X.
  (* the named X onto the identity *)
  eapply (exact_run_rot1 _ _ _ _ _ _ _ _ (1, 0, 0) 0 0);
    [reflexivity|exact unit_axis_100|exact (regime_cW0 _ _ _ _ ex_cW1)|]. cbn [snd].
  rewrite (compose_cW0 0 _ _ _ _ _ _ _ _ unit_axis_100 unit_axis_100 ex_cW1), ex_cV1.
  (* the end: the accumulator carries the name of the lone gate and is not renamed *)
  cbn [exact_run]. constructor; [|constructor]. intros _.
  rewrite <- !is_identity_bsr_X, not_identity_PI, is_identity_id0.
  unfold fname. cbn [snd ex_gi is_anonymous gargs]. apply mequiv_refl.
Qed.

Lemma ex_ops_nodup : ops_nodup ex_ir.
Proof.
  intros o g gi Hin. unfold ex_ir in Hin. cbn [In] in Hin.
  destruct Hin as [E|[E|[E|[E|[]]]]]; try discriminate; injection E as _ <- _; exact Logic.I.
Qed.

(* the example satisfies every hypothesis of the theorem, the pass succeeds on it and the input denotes an
   operator for every outcome: the conclusion is not vacuous *)
Example merge_same_operation_example :
  ops_nodup ex_ir /\ exact_run (acc0 RNumX 1) ex_ir /\
  (forall o, exists A, kraus 1 o ex_ir = Ok A) /\
  exists out, merge RNumX 1 ex_ir = Ok out /\ same_operation 1 ex_ir out.
Proof.
  split; [exact ex_ops_nodup|]. split; [exact ex_exact_run|]. split.
  - intros o. unfold kraus, ex_ir. cbn [kraus_from stmt_op].
    rewrite !get_matrix_bsr_lift1, embed1_lift1 by lia. eexists. reflexivity.
  - destruct (merge_total RNumX 1 ex_ir) as (out & Hout).
    + unfold ex_ir. repeat constructor; cbn; lia.
    + exists out. split; [exact Hout|].
      exact (merge_same_operation 1 ex_ir out ex_ops_nodup ex_exact_run Hout).
Qed.
Close Scope R_scope.


(* a second example, on two qubits: a named X on qubit 0 followed by a measurement of qubit 1.  The measurement
   does not touch qubit 0, so the accumulator of qubit 0 is carried across it and emitted after it: the output
   is a reordering of the input, justified by the commutation lemmas *)
Open Scope R_scope.
Definition ex2_ir : list (stmt R) :=
  [ SGate 1%positive (BSR 0 (1, 0, 0) PI 0) ex_gi;
    SMeasure 2%positive 1 0 (0, 0, 1) anon ].

Lemma ex2_exact_run : exact_run (acc0 RNumX 2) ex2_ir.
Proof.
  change (acc0 RNumX 2) with [ident RNumX 0; ident RNumX 1]. unfold ex2_ir. rewrite (ident_X 0).
  eapply (exact_run_rot1 _ _ _ _ _ _ _ _ (1, 0, 0) 0 0);
    [reflexivity|exact unit_axis_100|exact (regime_cW0 _ _ _ _ ex_cW1)|]. cbn [snd].
  rewrite (compose_cW0 0 _ _ _ _ _ _ _ _ unit_axis_100 unit_axis_100 ex_cW1), ex_cV1.
  rewrite exact_run_measure. cbn [flush_accs].
  match goal with |- context [acc_get [?y; ?i] 1%Z] => change (acc_get [y; i] 1%Z) with (Some i) end.
  cbv beta iota.
  rewrite is_identity_ident.
  cbn [exact_run]. constructor; [|constructor; [|constructor]].
  - intros _. rewrite <- !is_identity_bsr_X, not_identity_PI, is_identity_id0.
    unfold fname. cbn [snd ex_gi is_anonymous gargs]. apply mequiv_refl.
  - intros Hi. rewrite is_identity_ident in Hi. discriminate.
Qed.

Lemma ex2_ops_nodup : ops_nodup ex2_ir.
Proof.
  intros o g gi Hin. unfold ex2_ir in Hin. cbn [In] in Hin.
  destruct Hin as [E|[E|[]]]; try discriminate; injection E as _ <- _; exact Logic.I.
Qed.

Example merge_same_operation_example2 :
  ops_nodup ex2_ir /\ exact_run (acc0 RNumX 2) ex2_ir /\
  (forall o, exists A, kraus 2 o ex2_ir = Ok A) /\
  exists out, merge RNumX 2 ex2_ir = Ok out /\ same_operation 2 ex2_ir out /\
    (* the measurement now comes first *)
    filter (fun s => negb (is_bsr_stmt s)) out = [SMeasure 2%positive 1 0 (0, 0, 1) anon] /\
    exists g gi, out = [SMeasure 2%positive 1 0 (0, 0, 1) anon; SGate 3%positive g gi].
Proof.
  split; [exact ex2_ops_nodup|]. split; [exact ex2_exact_run|]. split.
  - intros o. unfold kraus, ex2_ir. cbn [kraus_from stmt_op].
    rewrite !get_matrix_bsr_lift1, embed1_lift1 by lia. eexists. reflexivity.
  - assert (Hout : merge RNumX 2 ex2_ir =
                   Ok [SMeasure 2%positive 1 0 (0, 0, 1) anon;
                       SGate 3%positive (BSR 0 (1, 0, 0) PI (normalize_angle RNum (0 + 0))) ex_gi]).
    { unfold merge, ex2_ir.
      change (map (fun i => ident RNumX (Z.of_nat i)) (seq 0 (Z.to_nat 2))) with [ident RNumX 0; ident RNumX 1].
      rewrite (ident_X 0), merge_loop_rot.
      match goal with |- context [acc_get (?y :: ?a) 0%Z] => change (acc_get (y :: a) 0%Z) with (Some y) end.
      cbv beta iota. unfold compose_gates. cbn [fst snd Z.eqb].
      rewrite (compose_cW0 0 _ _ _ _ _ _ _ _ unit_axis_100 unit_axis_100 ex_cW1), ex_cV1.
      rewrite <- !is_identity_bsr_X, not_identity_PI, is_identity_id0.
      cbn [acc_set Z.to_nat merge_loop stmt_qubits flush].
      match goal with |- context [acc_get [?y; ?i] 1%Z] => change (acc_get [y; i] 1%Z) with (Some i) end.
  cbv beta iota.
      rewrite is_identity_ident. cbn [final_flush fst snd]. rewrite not_identity_PI, is_identity_ident.
      cbn [ex_gi is_anonymous gargs rev app max_oid Pos.max Pos.succ Pos.compare Pos.compare_cont]. reflexivity. }
    eexists. split; [exact Hout|]. split; [|split].
    + exact (merge_same_operation 2 ex2_ir _ ex2_ops_nodup ex2_exact_run Hout).
    + reflexivity.
    + eexists. eexists. reflexivity.
Qed.
Close Scope R_scope.

(* ================================================================== *)
(* 9. remarks on the hypotheses                                        *)

(* [names_exact] holds in particular when no accumulator left at the end is anonymous (nothing is renamed) *)
Lemma names_exact_named (a : list G) : Forall (fun x => is_anonymous (snd x) = false) a -> names_exact a.
Proof.
  intros H. unfold names_exact. eapply Forall_impl; [|exact H].
  intros x Hx _. unfold fname. rewrite Hx. apply mequiv_refl.
Qed.

Open Scope R_scope.

(* The exact-regime hypothesis cannot be dropped: the rotation R_x(ATOL) alone on one qubit has a unit axis, but
   composing it onto the identity accumulator takes the shortcut (0 < sin(ATOL/2) < ATOL), the accumulator
   stays an identity and nothing is emitted; the empty output does not do what R_x(ATOL) does. *)
Theorem merge_same_operation_without_regime_refuted :
  exists n (ir out : list (stmt R)),
    ops_nodup ir /\
    (forall o q ax an ph gi, In (SGate o (BSR q ax an ph) gi) ir -> unit_axis ax) /\
    merge RNumX n ir = Ok out /\ ~ same_operation n ir out.
Proof.
  set (ir := [SGate 1%positive (BSR 0 (1, 0, 0) ATOL 0) (@anon R)]).
  exists 1%Z, ir, [].
  pose proof ATOL_pos as Hat. pose proof PI_bounds as [HP3 _].
  assert (Hat1 : ATOL < 1) by (unfold ATOL; lra).
  assert (Hs1 : 0 < sin (ATOL / 2)) by (apply sin_gt_0; lra).
  assert (Hs2 : sin (ATOL / 2) < ATOL / 2) by (apply sin_lt_x; lra).
  split; [|split; [|split]].
  - intros o g gi [E|[]]. injection E as _ <- _. exact Logic.I.
  - intros o q ax an ph gi [E|[]]. injection E as _ _ <- _ _ _. apply unit_axis_100.
  - assert (Hsc : compose_shortcut RNumX (1, 0, 0) ATOL (1, 0, 0) 0 = true).
    { rewrite (lone_gate_shortcut _ _ _ unit_axis_100 unit_axis_100). apply Rltb_true. rewrite Rabs_pos_eq; lra. }
    unfold merge, ir.
    change (map (fun i => ident RNumX (Z.of_nat i)) (seq 0 (Z.to_nat 1))) with [ident RNumX 0].
    rewrite ident_X, merge_loop_rot.
    match goal with |- context [acc_get [?y] 0%Z] => change (acc_get [y] 0%Z) with (Some y) end.
    cbv beta iota. unfold compose_gates. cbn [fst snd Z.eqb].
    rewrite (compose_shortcut_result RNumX 0%Z _ _ 0 anon _ _ 0 _ Hsc).
    cbn [acc_set Z.to_nat merge_loop final_flush fst].
    rewrite bsr_identity_X, bsr_identity_R, is_identity_id0. reflexivity.
  - intros [_ Hk].
    set (U := can1 RNum (1, 0, 0) ATOL 0).
    assert (HU : wf_mat 2 U) by apply shape_can1.
    assert (Hq : (0 <= 0 < 1)%Z) by lia.
    pose proof (lift1_wf 1 0 U Hq HU) as HL.
    assert (HA : kraus 1 (fun _ => false) ir = Ok (lift1 1 0 U)).
    { unfold kraus, ir. cbn [kraus_from stmt_op]. rewrite (get_matrix_bsr_lift1 1 0 _ _ _ Hq). fold U.
      now rewrite (mm_eye_r 1 _ HL). }
    destruct (Hk _ _ HA) as (B & HB & z & Hz & EB).
    unfold kraus in HB. cbn [kraus_from] in HB. injection HB as <-.
    assert (E01 : mget RNum (eye RNum (zpow2 1)) 0 1 = mget RNum (mscale z (lift1 1 0 U)) 0 1) by now rewrite EB.
    assert (H0 : (0 < zpow2 1)%nat) by (vm_compute; lia). assert (H1 : (1 < zpow2 1)%nat) by (vm_compute; lia).
    rewrite (mget_eye RNum _ 0 1 H0 H1), mget_mscale in E01.
    rewrite (lift1_entry 1 0 U Hq HU 0 1 H0 H1) in E01.
    change (agreeb [Z.to_N 0] (N.of_nat 0) (N.of_nat 1)) with true in E01.
    change (N.to_nat (N.b2n (tb 0 (Z.to_N 0)))) with 0%nat in E01.
    change (N.to_nat (N.b2n (tb 1 (Z.to_N 0)))) with 1%nat in E01.
    destruct z as [a b]. unfold unit_c in Hz. cbn [fst snd] in Hz.
    unfold U, can1, mget in E01. cbn [nth Nat.eqb] in E01.
    unfold cmul, cis, nhalf, n2, ax_x, ax_y, ax_z, czero, c0, n0 in E01. revert E01. rnum_cbn.
    rewrite cos_0, sin_0. intros E01. injection E01 as E1 E2. nra.
Qed.
Close Scope R_scope.

(* ================================================================== *)
Print Assumptions passive_commute.
Print Assumptions lift1_commute.
Print Assumptions lift1_commute_gate_partial.
Print Assumptions lift1_commute_stmt.
Print Assumptions compose_sem.
Print Assumptions merge_loop_sem.
Print Assumptions merge_same_operation.
Print Assumptions merge_same_operation_example.
Print Assumptions merge_same_operation_example2.
Print Assumptions merge_same_operation_without_regime_refuted.
