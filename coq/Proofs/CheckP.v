(* CheckP.v — the replacement checker and gate equality (Model/Check.v):
   common.are_matrices_equivalent_up_to_global_phase, np.allclose,
   general_decomposer.check_gate_replacement, ir.compare_gates,
   BlochSphereRotation.__eq__ and Python's dispatch of ==.

   Part A (RNum, structural parts for any T): what acceptance by
       [mat_allclose] / [equiv_up_to_phase] means, with explicit constants,
       and completeness for exact global phases.  [equiv_up_to_phase] is the
       function AS REPAIRED: the global phase is read off at the entry of largest
       modulus ([argmax_entry], np.argmax), characterised by [argmax_entry_spec];
       for a unitary matrix that entry has modulus >= 1/sqrt d
       ([equiv_up_to_phase_well_conditioned]).
   Part B: [check_replacement] specification, error kinds, soundness.
   Part C: [bsr_eq] (BlochSphereRotation.__eq__ AS REPAIRED: zero rotations
       equal whatever their axes, half turns about opposite axes equal with
       phases pi apart, identity rotations equal on any qubits), [gate_eq]
       dispatch (as repaired: only rotation-vs-rotation is field-wise, every
       other pair goes through [compare_gates], in both orders),
       [compare_gates], totality of the reindexer on valid gates. *)
From Coq Require Import Reals ZArith NArith List Bool Lia Lra Arith.
Import ListNotations.
From OSQ Require Import Num IR Bits Construct Matrix Check BitsP RTrig RNum SU2 ConstructP MatrixP.
Close Scope N_scope.
Close Scope R_scope.
Open Scope nat_scope.

(* ================================================================== *)
(* generic list facts                                                  *)

Lemma forallb_combine_nth {X Y} (f : X * Y -> bool) dx dy : forall (a : list X) (b : list Y),
  length a = length b ->
  (forallb f (combine a b) = true <-> forall i, i < length a -> f (nth i a dx, nth i b dy) = true).
Proof.
  induction a as [|x a IH]; intros [|y b] Hl; cbn [length] in Hl; try discriminate.
  - cbn. split; [intros _ i Hi; lia|reflexivity].
  - cbn [combine forallb length]. rewrite andb_true_iff, (IH b) by lia. split.
    + intros [H0 HS] [|i] Hi; cbn [nth]; [exact H0|apply HS; lia].
    + intros H. split; [apply (H 0); lia|]. intros i Hi. apply (H (S i)). lia.
Qed.

Lemma zdedup_In_iff x l : In x (zdedup l) <-> In x l.
Proof.
  induction l as [|y l IH]; cbn [zdedup]; [tauto|].
  destruct (zmem y l) eqn:E.
  - rewrite IH. cbn [In]. split; [auto|]. intros [->|H]; [apply zmem_In; exact E|exact H].
  - cbn [In]. rewrite IH. tauto.
Qed.

Lemma zdedup_NoDup l : NoDup (zdedup l).
Proof.
  induction l as [|y l IH]; cbn [zdedup]; [constructor|].
  destruct (zmem y l) eqn:E; [exact IH|]. constructor; [|exact IH].
  rewrite zdedup_In_iff. intros Hin. apply zmem_In in Hin. congruence.
Qed.

Lemma zsubset_spec a b : zsubset a b = true <-> forall x, In x a -> In x b.
Proof.
  unfold zsubset. rewrite forallb_forall. split; intros H x Hx.
  - apply zmem_In. now apply H.
  - apply zmem_In. now apply H.
Qed.

Lemma zindex_Some x l : forall i, zindex x l = Some i ->
  (0 <= i < Z.of_nat (length l))%Z /\ nth (Z.to_nat i) l 0%Z = x.
Proof.
  induction l as [|y l IH]; intros i Hi; cbn [zindex] in Hi; [discriminate|].
  destruct (Z.eqb_spec x y) as [->|Hne].
  - injection Hi as <-. cbn [length nth Z.to_nat]. split; [lia|reflexivity].
  - destruct (zindex x l) as [i'|]; [|discriminate]. injection Hi as <-.
    destruct (IH i' eq_refl) as [Hr Hn]. cbn [length]. split; [lia|].
    rewrite Z2Nat.inj_succ by lia. exact Hn.
Qed.

Lemma zindex_None x l : zindex x l = None <-> ~ In x l.
Proof.
  induction l as [|y l IH]; cbn [zindex In]; [tauto|].
  destruct (Z.eqb_spec x y) as [->|Hne].
  - split; [discriminate|tauto].
  - destruct (zindex x l) as [i'|]; cbn [option_map].
    + split; [discriminate|]. intros H. exfalso. apply H. right.
      destruct (in_dec Z.eq_dec x l) as [Hin|Hnin]; [exact Hin|]. apply IH in Hnin. discriminate.
    + split; [|reflexivity]. intros _ [H|H]; [congruence|]. now apply IH in H.
Qed.

Lemma zindex_In x l : In x l -> exists i, zindex x l = Some i.
Proof.
  intros Hin. destruct (zindex x l) as [i|] eqn:E; [now exists i|].
  apply zindex_None in E. contradiction.
Qed.

(* list.index is injective where it is defined *)
Lemma zindex_inj x y l i : zindex x l = Some i -> zindex y l = Some i -> x = y.
Proof.
  intros Hx Hy. apply zindex_Some in Hx, Hy. destruct Hx as [_ <-], Hy as [_ <-]. reflexivity.
Qed.

(* ================================================================== *)
(* Part A, any T: the boolean layer                                    *)

Section CheckT.
  Context {T : Type} (N : Num T).
  Notation C := (T * T)%type.
  Notation mat := (list (list C)).
  Notation mget := (mget N).

  (* same number of rows, and rows of the same length *)
  Definition same_dims (A B : mat) : Prop :=
    length A = length B /\ forall r, r < length A -> length (nth r A []) = length (nth r B []).

  Lemma same_dims_shape nr nc A B : shape nr nc A -> shape nr nc B -> same_dims A B.
  Proof.
    intros HA HB. split; [destruct HA, HB; congruence|].
    intros r Hr. assert (Hr' : r < nr) by (destruct HA; lia).
    now rewrite (shape_row _ _ _ _ HA Hr'), (shape_row _ _ _ _ HB Hr').
  Qed.

  (* np.allclose(A, B, atol=tol), any tolerance *)
  Lemma mat_allclose_tol_iff (tol : T) (A B : mat) :
    mat_allclose_tol N tol A B = true <->
    same_dims A B /\
    forall r c, r < length A -> c < length (nth r A []) ->
      close_c_tol N tol (mget A r c) (mget B r c) = true.
  Proof.
    unfold mat_allclose_tol, same_dims. rewrite andb_true_iff, Nat.eqb_eq. split.
    - intros [Hl Hf]. rewrite (forallb_combine_nth _ [] [] A B Hl) in Hf.
      assert (Hrow : forall r, r < length A ->
                length (nth r A []) = length (nth r B []) /\
                forall c, c < length (nth r A []) -> close_c_tol N tol (mget A r c) (mget B r c) = true).
      { intros r Hr. specialize (Hf r Hr). cbn [fst snd] in Hf.
        apply andb_true_iff in Hf. destruct Hf as [Hlr Hfr]. apply Nat.eqb_eq in Hlr.
        split; [exact Hlr|].
        rewrite (forallb_combine_nth _ (czero N) (czero N) _ _ Hlr) in Hfr.
        intros c Hc. exact (Hfr c Hc). }
      split; [split; [exact Hl|]|]; intros r; intros; now apply Hrow.
    - intros [[Hl Hrows] Hent]. split; [exact Hl|].
      apply (forallb_combine_nth _ [] [] A B Hl). intros r Hr. cbn [fst snd].
      apply andb_true_iff. split; [apply Nat.eqb_eq; now apply Hrows|].
      apply (forallb_combine_nth _ (czero N) (czero N) _ _ (Hrows r Hr)).
      intros c Hc. cbn [fst snd]. now apply Hent.
  Qed.

  (* sanity: with numpy's default absolute tolerance this is plain np.allclose
     (the comparison [is_identity] keeps using) *)
  Lemma close_c_tol_atol8 (a b : C) : close_c_tol N (atol8 N) a b = close_c N a b.
  Proof. reflexivity. Qed.
  Lemma mat_allclose_tol_atol8 (A B : mat) : mat_allclose_tol N (atol8 N) A B = mat_allclose N A B.
  Proof. reflexivity. Qed.

  Lemma mat_allclose_iff (A B : mat) :
    mat_allclose N A B = true <->
    same_dims A B /\
    forall r c, r < length A -> c < length (nth r A []) ->
      close_c N (mget A r c) (mget B r c) = true.
  Proof. rewrite <- mat_allclose_tol_atol8. apply mat_allclose_tol_iff. Qed.

  (* ---- mat_scale --------------------------------------------------- *)

  Lemma mat_scale_length k (A : mat) : length (mat_scale N k A) = length A.
  Proof. unfold mat_scale. now rewrite map_length. Qed.

  Lemma mat_scale_row_length k (A : mat) r :
    length (nth r (mat_scale N k A) []) = length (nth r A []).
  Proof.
    unfold mat_scale. destruct (Nat.lt_ge_cases r (length A)) as [Hr|Hr].
    - rewrite (nth_map_in _ _ _ _ []) by exact Hr. now rewrite map_length.
    - rewrite !nth_overflow; [reflexivity|exact Hr|now rewrite map_length].
  Qed.

  Lemma mget_mat_scale k (A : mat) r c : r < length A -> c < length (nth r A []) ->
    mget (mat_scale N k A) r c = cmul N k (mget A r c).
  Proof.
    intros Hr Hc. unfold MatrixP.mget, mat_scale.
    rewrite (nth_map_in _ _ _ _ []) by exact Hr.
    now rewrite (nth_map_in _ _ _ _ (czero N)) by exact Hc.
  Qed.

  Lemma same_dims_mat_scale k (A : mat) : same_dims (mat_scale N k A) A.
  Proof.
    split; [apply mat_scale_length|]. intros r _. apply mat_scale_row_length.
  Qed.

  Lemma shape_mat_scale nr nc k (A : mat) : shape nr nc A -> shape nr nc (mat_scale N k A).
  Proof.
    intros [Hl Hf]. split; [now rewrite mat_scale_length|].
    unfold mat_scale. apply Forall_forall. intros row Hin. apply in_map_iff in Hin.
    destruct Hin as [row' [<- Hin]]. rewrite map_length.
    rewrite Forall_forall in Hf. now apply Hf.
  Qed.

  (* ---- argmax_entry, any T ------------------------------------------- *)

  (* |x| < ATOL, as the model computes it *)
  Definition smallb (x : C) : bool := nltb N (cabs N x) (atol N).

  Lemma mat_get_mget (A : mat) ij : mat_get N A ij = mget A (fst ij) (snd ij).
  Proof. reflexivity. Qed.

  (* the position carried by the scan is the one passed in, or one inside the row *)
  Lemma argmax_row_pos (r : list C) i : forall j0 best,
    fst (argmax_row N r i j0 best) = fst best \/
    exists t, t < length r /\ fst (argmax_row N r i j0 best) = (i, j0 + t).
  Proof.
    induction r as [|x r IH]; intros j0 best; cbn [argmax_row length]; [now left|].
    cbv zeta.
    destruct (IH (S j0) (if nltb N (snd best) (cabs N x) then ((i, j0), cabs N x) else best))
      as [H|[t [Ht H]]].
    - destruct (nltb N (snd best) (cabs N x)).
      + right. exists 0. split; [lia|]. rewrite H. cbn [fst]. now rewrite Nat.add_0_r.
      + now left.
    - right. exists (S t). split; [lia|]. rewrite H. f_equal. lia.
  Qed.

  Lemma argmax_rows_pos (A : mat) : forall i0 best,
    fst (argmax_rows N A i0 best) = fst best \/
    exists r c, r < length A /\ c < length (nth r A []) /\
                fst (argmax_rows N A i0 best) = (i0 + r, c).
  Proof.
    induction A as [|row A IH]; intros i0 best; cbn [argmax_rows length]; [now left|].
    destruct (IH (S i0) (argmax_row N row i0 0 best)) as [H|[r [c [Hr [Hc H]]]]].
    - destruct (argmax_row_pos row i0 0 best) as [H'|[t [Ht H']]].
      + left. congruence.
      + right. exists 0, t. cbn [nth]. split; [lia|]. split; [exact Ht|].
        rewrite H, H'. f_equal. lia.
    - right. exists (S r), c. cbn [nth]. split; [lia|]. split; [exact Hc|].
      rewrite H. f_equal. lia.
  Qed.

  (* np.argmax raises ValueError exactly when there is no entry (0,0) *)
  Lemma argmax_entry_None (A : mat) :
    argmax_entry N A = None <-> length A = 0 \/ length (nth 0 A []) = 0.
  Proof.
    unfold argmax_entry. destruct A as [|[|x row] A]; cbn [length nth].
    - split; auto.
    - split; auto.
    - split; [discriminate|]. intros [H|H]; discriminate.
  Qed.

  Lemma argmax_entry_exists (A : mat) :
    0 < length A -> 0 < length (nth 0 A []) -> exists ij, argmax_entry N A = Some ij.
  Proof.
    intros H1 H2. destruct (argmax_entry N A) as [ij|] eqn:E; [now exists ij|].
    apply argmax_entry_None in E. lia.
  Qed.

  (* the position returned is a position of A *)
  Lemma argmax_entry_in_range (A : mat) i j :
    argmax_entry N A = Some (i, j) -> i < length A /\ j < length (nth i A []).
  Proof.
    unfold argmax_entry. destruct A as [|[|x row] A]; try discriminate.
    intros H0.
    assert (H : fst (argmax_rows N ((x :: row) :: A) 0 ((0, 0), cabs N x)) = (i, j)) by congruence.
    clear H0.
    destruct (argmax_rows_pos ((x :: row) :: A) 0 ((0, 0), cabs N x)) as [H'|[r [c [Hr [Hc H']]]]];
      rewrite H in H'; cbn [fst] in H'.
    - injection H' as -> ->. cbn [length nth]. lia.
    - injection H' as -> ->. auto.
  Qed.

  (* on a d x d matrix, d >= 1, np.argmax answers, inside the matrix *)
  Lemma argmax_entry_wf d (A : mat) : 0 < d -> wf_mat d A ->
    exists i j, argmax_entry N A = Some (i, j) /\ i < d /\ j < d.
  Proof.
    intros Hd HA. assert (HlA : length A = d) by (destruct HA; assumption).
    destruct (argmax_entry_exists A) as [[i j] E].
    - lia.
    - rewrite (shape_row _ _ _ 0 HA Hd). exact Hd.
    - exists i, j. split; [exact E|]. destruct (argmax_entry_in_range _ _ _ E) as [Hi Hj].
      assert (Hi' : i < d) by lia. split; [exact Hi'|].
      now rewrite (shape_row _ _ _ _ HA Hi') in Hj.
  Qed.

  (* ---- equiv_up_to_phase, boolean characterisations ------------------ *)

  Lemma equiv_up_to_phase_true_iff (A B : mat) :
    equiv_up_to_phase N A B = Ok true <->
    exists ij, argmax_entry N A = Some ij /\
      smallb (mat_get N A ij) = false /\ smallb (mat_get N B ij) = false /\
      mat_allclose_tol N (atol N) A (mat_scale N (cdiv N (mat_get N A ij) (mat_get N B ij)) B) = true.
  Proof.
    unfold equiv_up_to_phase, smallb. destruct (argmax_entry N A) as [ij|].
    - destruct (nltb N (cabs N (mat_get N A ij)) (atol N)) eqn:EA;
        destruct (nltb N (cabs N (mat_get N B ij)) (atol N)) eqn:EB; cbn [orb].
      1-3: (split; [discriminate|]; intros [ij' [H [HA' [HB' _]]]]; injection H as <-; congruence).
      split.
      + intros H. injection H as H. exists ij. repeat split; assumption.
      + intros [ij' [H [_ [_ H']]]]. injection H as <-. now rewrite H'.
    - split; [discriminate|]. intros [ij [H _]]. discriminate.
  Qed.

  Lemma equiv_up_to_phase_false_iff (A B : mat) :
    equiv_up_to_phase N A B = Ok false <->
    exists ij, argmax_entry N A = Some ij /\
      (smallb (mat_get N A ij) = true \/ smallb (mat_get N B ij) = true \/
       (smallb (mat_get N A ij) = false /\ smallb (mat_get N B ij) = false /\
        mat_allclose_tol N (atol N) A (mat_scale N (cdiv N (mat_get N A ij) (mat_get N B ij)) B) = false)).
  Proof.
    unfold equiv_up_to_phase, smallb. destruct (argmax_entry N A) as [ij|].
    - destruct (nltb N (cabs N (mat_get N A ij)) (atol N)) eqn:EA;
        destruct (nltb N (cabs N (mat_get N B ij)) (atol N)) eqn:EB; cbn [orb].
      1-3: (split; [intros _; exists ij; split; [reflexivity|rewrite ?EA, ?EB; auto]|reflexivity]).
      split.
      + intros H. injection H as H. exists ij. split; [reflexivity|]. rewrite EA, EB. right. right. auto.
      + intros [ij' [H H']]. injection H as <-. rewrite EA, EB in H'.
        destruct H' as [H'|[H'|[_ [_ H']]]]; [discriminate|discriminate|]. now rewrite H'.
    - split; [discriminate|]. intros [ij [H _]]. discriminate.
  Qed.

  (* proof-side only: the same function with the absolute tolerance of its final
     np.allclose as a parameter.  The library's function is the one at ATOL; the one
     at numpy's default 1e-8 ([atol8]) is the function before np.allclose was given
     atol=ATOL *)
  Definition equiv_up_to_phase_with (tol : T) (A B : mat) : result bool :=
    match argmax_entry N A with
    | None => Err EValue
    | Some ij =>
        if nltb N (cabs N (mat_get N A ij)) (atol N) || nltb N (cabs N (mat_get N B ij)) (atol N) then Ok false
        else Ok (mat_allclose_tol N tol A (mat_scale N (cdiv N (mat_get N A ij) (mat_get N B ij)) B))
    end.

  Lemma equiv_up_to_phase_with_atol (A B : mat) :
    equiv_up_to_phase_with (atol N) A B = equiv_up_to_phase N A B.
  Proof. reflexivity. Qed.

  Lemma equiv_up_to_phase_with_atol8 (A B : mat) :
    equiv_up_to_phase_with (atol8 N) A B =
    match argmax_entry N A with
    | None => Err EValue
    | Some ij =>
        if nltb N (cabs N (mat_get N A ij)) (atol N) || nltb N (cabs N (mat_get N B ij)) (atol N) then Ok false
        else Ok (mat_allclose N A (mat_scale N (cdiv N (mat_get N A ij) (mat_get N B ij)) B))
    end.
  Proof. reflexivity. Qed.

  (* the only error is numpy's ValueError for the argmax of an empty matrix; in
     particular an all-zero A no longer raises (StopIteration used to escape) *)
  Lemma equiv_up_to_phase_err_iff (A B : mat) e :
    equiv_up_to_phase N A B = Err e <-> e = EValue /\ argmax_entry N A = None.
  Proof.
    unfold equiv_up_to_phase. destruct (argmax_entry N A) as [ij|].
    - destruct (orb _ _); split; try discriminate; intros [_ H]; discriminate.
    - split; [intros H; injection H as <-; auto|intros [-> _]; reflexivity].
  Qed.

  (* on d x d matrices, d >= 1, the comparison always answers *)
  Lemma equiv_up_to_phase_total_wf d (A B : mat) : 0 < d -> wf_mat d A ->
    exists b, equiv_up_to_phase N A B = Ok b.
  Proof.
    intros Hd HA. destruct (equiv_up_to_phase N A B) as [b|e] eqn:E; [now exists b|].
    apply equiv_up_to_phase_err_iff in E. destruct E as [_ E].
    destruct (argmax_entry_wf d A Hd HA) as [i [j [H _]]]. congruence.
  Qed.
End CheckT.

(* ================================================================== *)
(* Part A at RNum: what acceptance means, with explicit constants      *)

Section CheckR.
  Local Open Scope R_scope.
  Notation CR := (R * R)%type.
  Notation matR := (list (list (R * R))).
  Notation mgetR := (mget RNum).

  (* the complex modulus and the library's ATOL = 1e-7 *)
  Definition Cabs (z : CR) : R := sqrt (fst z * fst z + snd z * snd z).
  Definition ATOL : R := 1 / 10000000.

  Lemma cabs_RNum z : cabs RNum z = Cabs z.
  Proof. reflexivity. Qed.
  Lemma atol_RNum_ATOL : atol RNum = ATOL.
  Proof. reflexivity. Qed.
  Lemma ATOL_pos : 0 < ATOL.
  Proof. unfold ATOL. lra. Qed.

  Lemma Cabs_nonneg z : 0 <= Cabs z.
  Proof. apply sqrt_pos. Qed.

  Lemma Cabs_mul a b : Cabs (cmul RNum a b) = Cabs a * Cabs b.
  Proof.
    destruct a as [a1 a2], b as [b1 b2]. unfold Cabs, cmul. rnum_cbn.
    rewrite <- sqrt_mult by nra. f_equal. ring.
  Qed.

  Lemma Cabs_pos_sq z : 0 < Cabs z -> fst z * fst z + snd z * snd z <> 0.
  Proof. unfold Cabs. intros H E. rewrite E, sqrt_0 in H. lra. Qed.

  Lemma Cabs_sub_self z : Cabs (csub RNum z z) = 0.
  Proof.
    destruct z as [x y]. unfold Cabs, csub. rnum_cbn.
    replace ((x - x) * (x - x) + (y - y) * (y - y)) with 0 by ring. apply sqrt_0.
  Qed.

  Lemma cdiv_cmul_cancel z b : fst b * fst b + snd b * snd b <> 0 ->
    cdiv RNum (cmul RNum z b) b = z.
  Proof.
    destruct z as [z1 z2], b as [b1 b2]. cbn [fst snd]. intros Hb.
    unfold cdiv, cmul, nsq. rnum_cbn. apply pair_eq; field; exact Hb.
  Qed.

  Lemma cdiv_self b : fst b * fst b + snd b * snd b <> 0 -> cdiv RNum b b = (1, 0).
  Proof.
    destruct b as [b1 b2]. cbn [fst snd]. intros Hb.
    unfold cdiv, nsq. rnum_cbn. apply pair_eq; field; exact Hb.
  Qed.

  Lemma smallb_iff z : smallb RNum z = true <-> Cabs z < ATOL.
  Proof. unfold smallb. cbn [nltb RNum]. apply Rltb_true. Qed.
  Lemma smallb_false_iff z : smallb RNum z = false <-> ATOL <= Cabs z.
  Proof. unfold smallb. cbn [nltb RNum]. apply Rltb_false. Qed.

  Lemma Cabs_sq z : Cabs z * Cabs z = fst z * fst z + snd z * snd z.
  Proof. unfold Cabs. apply sqrt_sqrt. nra. Qed.

  (* ---- A.0  np.argmax(np.abs(A)) -------------------------------------- *)

  (* one row of the scan: the magnitude carried only grows, it bounds the row, and
     either nothing changed or the new best is the first entry of the row that
     reaches the new magnitude, strictly above the old one *)
  Lemma argmax_row_R (r : list CR) i : forall j0 bp bm p' m',
    argmax_row RNum r i j0 (bp, bm) = (p', m') ->
    bm <= m' /\
    (forall k, (k < length r)%nat -> Cabs (nth k r (czero RNum)) <= m') /\
    ((p', m') = (bp, bm) \/
     exists t, (t < length r)%nat /\ p' = (i, (j0 + t)%nat) /\
               m' = Cabs (nth t r (czero RNum)) /\ bm < m' /\
               forall t', (t' < t)%nat -> Cabs (nth t' r (czero RNum)) < m').
  Proof.
    induction r as [|x r IH]; intros j0 bp bm p' m' H; cbn [argmax_row length] in H.
    - injection H as <- <-. split; [lra|]. split; [intros k Hk; cbn in Hk; lia|now left].
    - cbv zeta in H. cbn [snd] in H. change (cabs RNum x) with (Cabs x) in H.
      cbn [nltb RNum] in H.
      destruct (Rltb bm (Cabs x)) eqn:E.
      + apply Rltb_true in E. destruct (IH _ _ _ _ _ H) as [H1 [H2 H3]].
        split; [lra|]. split.
        * intros [|k] Hk; cbn [nth]; [lra|apply H2; cbn [length] in Hk; lia].
        * right. destruct H3 as [H3|[t [Ht [Hp [Hm [Hlt Hbefore]]]]]].
          -- injection H3 as -> ->. exists 0%nat. cbn [nth length].
             split; [lia|]. split; [now rewrite Nat.add_0_r|]. split; [reflexivity|].
             split; [exact E|]. intros t' Ht'; lia.
          -- exists (S t). cbn [nth length].
             split; [lia|]. split; [rewrite Hp; f_equal; lia|]. split; [exact Hm|].
             split; [lra|]. intros [|t'] Ht'; [lra|apply Hbefore; lia].
      + apply Rltb_false in E. destruct (IH _ _ _ _ _ H) as [H1 [H2 H3]].
        split; [exact H1|]. split.
        * intros [|k] Hk; cbn [nth]; [lra|apply H2; cbn [length] in Hk; lia].
        * destruct H3 as [H3|[t [Ht [Hp [Hm [Hlt Hbefore]]]]]].
          -- now left.
          -- right. exists (S t). cbn [nth length].
             split; [lia|]. split; [rewrite Hp; f_equal; lia|]. split; [exact Hm|].
             split; [exact Hlt|]. intros [|t'] Ht'; [lra|apply Hbefore; lia].
  Qed.

  Lemma argmax_rows_R (A : matR) : forall i0 bp bm p' m',
    argmax_rows RNum A i0 (bp, bm) = (p', m') ->
    bm <= m' /\
    (forall r c, (r < length A)%nat -> (c < length (nth r A []))%nat -> Cabs (mgetR A r c) <= m') /\
    ((p', m') = (bp, bm) \/
     exists r c, (r < length A)%nat /\ (c < length (nth r A []))%nat /\
       p' = ((i0 + r)%nat, c) /\ m' = Cabs (mgetR A r c) /\ bm < m' /\
       forall r' c', (r' < r)%nat \/ (r' = r /\ (c' < c)%nat) ->
                     (c' < length (nth r' A []))%nat -> Cabs (mgetR A r' c') < m').
  Proof.
    induction A as [|row A IH]; intros i0 bp bm p' m' H; cbn [argmax_rows length] in H.
    - injection H as <- <-. split; [lra|]. split; [intros r c Hr; cbn in Hr; lia|now left].
    - destruct (argmax_row RNum row i0 0 (bp, bm)) as [p1 m1] eqn:E1.
      destruct (argmax_row_R _ _ _ _ _ _ _ E1) as [R1 [R2 R3]].
      destruct (IH _ _ _ _ _ H) as [H1 [H2 H3]].
      split; [lra|]. split.
      + intros [|r] c Hr Hc; unfold MatrixP.mget in *; cbn [nth length] in *.
        * specialize (R2 c Hc). lra.
        * apply H2; [lia|exact Hc].
      + destruct H3 as [H3|[r [c [Hr [Hc [Hp [Hm [Hlt Hbefore]]]]]]]].
        * injection H3 as -> ->. destruct R3 as [R3|[t [Ht [Hp [Hm [Hlt Hbefore]]]]]].
          -- now left.
          -- right. exists 0%nat, t. unfold MatrixP.mget. cbn [nth length].
             split; [lia|]. split; [exact Ht|]. split; [rewrite Hp; f_equal; lia|].
             split; [exact Hm|]. split; [exact Hlt|].
             intros r' c' [Hr'|[-> Hc']] Hlen; [lia|]. cbn [nth]. now apply Hbefore.
        * right. exists (S r), c. unfold MatrixP.mget in *. cbn [nth length].
          split; [lia|]. split; [exact Hc|]. split; [rewrite Hp; f_equal; lia|].
          split; [exact Hm|]. split; [lra|].
          intros [|r'] c' Hor Hlen; cbn [nth] in *.
          -- specialize (R2 c' Hlen). lra.
          -- apply Hbefore; [|exact Hlen].
             destruct Hor as [Hor|[Hor Hc']]; [left; lia|right; split; [lia|exact Hc']].
  Qed.

  (* np.unravel_index(np.argmax(np.abs(A)), A.shape): the position returned is a
     position of A, its modulus is the largest of all entries, and it is the FIRST
     such position in row-major order *)
  Theorem argmax_entry_spec (A : matR) i j :
    argmax_entry RNum A = Some (i, j) ->
    (i < length A)%nat /\ (j < length (nth i A []))%nat /\
    (forall r c, (r < length A)%nat -> (c < length (nth r A []))%nat ->
                 Cabs (mgetR A r c) <= Cabs (mgetR A i j)) /\
    (forall r c, (r < i)%nat \/ (r = i /\ (c < j)%nat) -> (c < length (nth r A []))%nat ->
                 Cabs (mgetR A r c) < Cabs (mgetR A i j)).
  Proof.
    intros H. destruct (argmax_entry_in_range RNum A i j H) as [Hi Hj].
    split; [exact Hi|]. split; [exact Hj|].
    unfold argmax_entry in H. destruct A as [|[|x row] A']; try discriminate.
    set (A := (x :: row) :: A') in *.
    destruct (argmax_rows RNum A 0 ((0, 0)%nat, cabs RNum x)) as [p' m'] eqn:E.
    cbn [fst] in H. injection H as ->.
    destruct (argmax_rows_R _ _ _ _ _ _ E) as [H1 [H2 H3]].
    destruct H3 as [H3|[r [c [Hr [Hc [Hp [Hm [Hlt Hbefore]]]]]]]].
    - injection H3 as -> -> Hm.
      replace (Cabs (mgetR A 0 0)) with m' by (rewrite Hm; reflexivity).
      split; [exact H2|]. intros r c [Hr|[-> Hc]] _; lia.
    - cbn [Nat.add] in Hp. injection Hp as -> ->. rewrite <- Hm.
      split; [exact H2|exact Hbefore].
  Qed.

  (* ... and these three properties determine it *)
  Theorem argmax_entry_complete (A : matR) i j :
    (0 < length (nth 0 A []))%nat -> (i < length A)%nat -> (j < length (nth i A []))%nat ->
    (forall r c, (r < length A)%nat -> (c < length (nth r A []))%nat ->
                 Cabs (mgetR A r c) <= Cabs (mgetR A i j)) ->
    (forall r c, (r < i)%nat \/ (r = i /\ (c < j)%nat) -> (c < length (nth r A []))%nat ->
                 Cabs (mgetR A r c) < Cabs (mgetR A i j)) ->
    argmax_entry RNum A = Some (i, j).
  Proof.
    intros H0 Hi Hj Hmax Hfirst.
    destruct (argmax_entry_exists RNum A ltac:(lia) H0) as [[i' j'] E].
    destruct (argmax_entry_spec A i' j' E) as [Hi' [Hj' [Hmax' Hfirst']]].
    rewrite E. f_equal.
    destruct (lt_eq_lt_dec i' i) as [[Hlt|Heq]|Hgt].
    - specialize (Hfirst i' j' (or_introl Hlt) Hj'). specialize (Hmax' i j Hi Hj). lra.
    - subst i'. destruct (lt_eq_lt_dec j' j) as [[Hlt|Heq]|Hgt].
      + specialize (Hfirst i j' (or_intror (conj eq_refl Hlt)) Hj'). specialize (Hmax' i j Hi Hj). lra.
      + now subst j'.
      + specialize (Hfirst' i j (or_intror (conj eq_refl Hgt)) Hj). specialize (Hmax i j' Hi' Hj'). lra.
    - specialize (Hfirst' i j (or_introl Hgt) Hj). specialize (Hmax i' j' Hi' Hj'). lra.
  Qed.

  (* np.isclose on one entry: |a - b| <= 1e-8 + 1e-5 |b| *)
  Lemma close_c_iff a b :
    close_c RNum a b = true <->
    Cabs (csub RNum a b) <= 1 / 100000000 + 1 / 100000 * Cabs b.
  Proof. unfold close_c. cbn [nleb RNum]. apply Rleb_true. Qed.

  Lemma close_c_refl a : close_c RNum a a = true.
  Proof.
    apply close_c_iff. rewrite Cabs_sub_self. pose proof (Cabs_nonneg a). lra.
  Qed.

  (* np.isclose(a, b, atol=tol) on one entry: |a - b| <= tol + 1e-5 |b| *)
  Lemma close_c_tol_iff tol a b :
    close_c_tol RNum tol a b = true <->
    Cabs (csub RNum a b) <= tol + 1 / 100000 * Cabs b.
  Proof. unfold close_c_tol. cbn [nleb RNum]. apply Rleb_true. Qed.

  Lemma close_c_tol_refl tol a : 0 <= tol -> close_c_tol RNum tol a a = true.
  Proof.
    intros Ht. apply close_c_tol_iff. rewrite Cabs_sub_self. pose proof (Cabs_nonneg a). lra.
  Qed.

  (* a larger absolute tolerance accepts more *)
  Lemma close_c_tol_mono tol tol' a b : tol <= tol' ->
    close_c_tol RNum tol a b = true -> close_c_tol RNum tol' a b = true.
  Proof. intros Ht. rewrite !close_c_tol_iff. lra. Qed.

  (* ---- A.1  np.allclose -------------------------------------------- *)

  Theorem mat_allclose_sound (A B : matR) :
    mat_allclose RNum A B = true ->
    length A = length B /\
    (forall r, (r < length A)%nat -> length (nth r A []) = length (nth r B [])) /\
    forall r c, (r < length A)%nat -> (c < length (nth r A []))%nat ->
      Cabs (csub RNum (mgetR A r c) (mgetR B r c))
      <= 1 / 100000000 + 1 / 100000 * Cabs (mgetR B r c).
  Proof.
    intros H. apply mat_allclose_iff in H. destruct H as [[Hl Hr] He].
    split; [exact Hl|]. split; [exact Hr|].
    intros r c Hr' Hc. apply close_c_iff. now apply He.
  Qed.

  Theorem mat_allclose_complete (A B : matR) :
    length A = length B ->
    (forall r, (r < length A)%nat -> length (nth r A []) = length (nth r B [])) ->
    (forall r c, (r < length A)%nat -> (c < length (nth r A []))%nat ->
      Cabs (csub RNum (mgetR A r c) (mgetR B r c))
      <= 1 / 100000000 + 1 / 100000 * Cabs (mgetR B r c)) ->
    mat_allclose RNum A B = true.
  Proof.
    intros Hl Hr He. apply mat_allclose_iff. split; [split; assumption|].
    intros r c Hr' Hc. apply close_c_iff. now apply He.
  Qed.

  (* on matrices of a known common shape *)
  Corollary mat_allclose_shape_iff nr nc (A B : matR) :
    shape nr nc A -> shape nr nc B ->
    (mat_allclose RNum A B = true <->
     forall r c, (r < nr)%nat -> (c < nc)%nat ->
       Cabs (csub RNum (mgetR A r c) (mgetR B r c))
       <= 1 / 100000000 + 1 / 100000 * Cabs (mgetR B r c)).
  Proof.
    intros HA HB. pose proof (same_dims_shape _ _ _ _ HA HB) as [Hl Hrows].
    assert (HlA : length A = nr) by (destruct HA; assumption).
    split.
    - intros H r c Hr Hc. apply mat_allclose_sound in H. destruct H as [_ [_ H]].
      apply H; [lia|]. now rewrite (shape_row _ _ _ _ HA Hr).
    - intros H. apply mat_allclose_complete; [exact Hl|exact Hrows|].
      intros r c Hr Hc. assert (Hr' : (r < nr)%nat) by lia.
      rewrite (shape_row _ _ _ _ HA Hr') in Hc. now apply H.
  Qed.

  Lemma mat_allclose_refl (A : matR) : mat_allclose RNum A A = true.
  Proof.
    apply mat_allclose_iff. split; [split; [reflexivity|intros; reflexivity]|].
    intros r c _ _. apply close_c_refl.
  Qed.

  (* ---- A.1'  np.allclose(A, B, atol=tol) ------------------------------ *)

  Theorem mat_allclose_tol_sound tol (A B : matR) :
    mat_allclose_tol RNum tol A B = true ->
    length A = length B /\
    (forall r, (r < length A)%nat -> length (nth r A []) = length (nth r B [])) /\
    forall r c, (r < length A)%nat -> (c < length (nth r A []))%nat ->
      Cabs (csub RNum (mgetR A r c) (mgetR B r c))
      <= tol + 1 / 100000 * Cabs (mgetR B r c).
  Proof.
    intros H. apply mat_allclose_tol_iff in H. destruct H as [[Hl Hr] He].
    split; [exact Hl|]. split; [exact Hr|].
    intros r c Hr' Hc. apply close_c_tol_iff. now apply He.
  Qed.

  Theorem mat_allclose_tol_complete tol (A B : matR) :
    length A = length B ->
    (forall r, (r < length A)%nat -> length (nth r A []) = length (nth r B [])) ->
    (forall r c, (r < length A)%nat -> (c < length (nth r A []))%nat ->
      Cabs (csub RNum (mgetR A r c) (mgetR B r c))
      <= tol + 1 / 100000 * Cabs (mgetR B r c)) ->
    mat_allclose_tol RNum tol A B = true.
  Proof.
    intros Hl Hr He. apply mat_allclose_tol_iff. split; [split; assumption|].
    intros r c Hr' Hc. apply close_c_tol_iff. now apply He.
  Qed.

  Corollary mat_allclose_tol_shape_iff tol nr nc (A B : matR) :
    shape nr nc A -> shape nr nc B ->
    (mat_allclose_tol RNum tol A B = true <->
     forall r c, (r < nr)%nat -> (c < nc)%nat ->
       Cabs (csub RNum (mgetR A r c) (mgetR B r c))
       <= tol + 1 / 100000 * Cabs (mgetR B r c)).
  Proof.
    intros HA HB. pose proof (same_dims_shape _ _ _ _ HA HB) as [Hl Hrows].
    assert (HlA : length A = nr) by (destruct HA; assumption).
    split.
    - intros H r c Hr Hc. apply mat_allclose_tol_sound in H. destruct H as [_ [_ H]].
      apply H; [lia|]. now rewrite (shape_row _ _ _ _ HA Hr).
    - intros H. apply mat_allclose_tol_complete; [exact Hl|exact Hrows|].
      intros r c Hr Hc. assert (Hr' : (r < nr)%nat) by lia.
      rewrite (shape_row _ _ _ _ HA Hr') in Hc. now apply H.
  Qed.

  Lemma mat_allclose_tol_refl tol (A : matR) : 0 <= tol -> mat_allclose_tol RNum tol A A = true.
  Proof.
    intros Ht. apply mat_allclose_tol_iff. split; [split; [reflexivity|intros; reflexivity]|].
    intros r c _ _. now apply close_c_tol_refl.
  Qed.

  (* whatever plain np.allclose accepts, the comparison with atol=ATOL accepts *)
  Lemma mat_allclose_tol_mono tol tol' (A B : matR) : tol <= tol' ->
    mat_allclose_tol RNum tol A B = true -> mat_allclose_tol RNum tol' A B = true.
  Proof.
    intros Ht. rewrite !mat_allclose_tol_iff. intros [Hd He]. split; [exact Hd|].
    intros r c Hr Hc. apply (close_c_tol_mono tol tol'); [exact Ht|now apply He].
  Qed.

  Corollary mat_allclose_implies_tol_ATOL (A B : matR) :
    mat_allclose RNum A B = true -> mat_allclose_tol RNum ATOL A B = true.
  Proof.
    rewrite <- mat_allclose_tol_atol8. apply mat_allclose_tol_mono.
    unfold atol8, ATOL. rnum_cbn. lra.
  Qed.

  (* ---- A.2  are_matrices_equivalent_up_to_global_phase (as repaired) ---- *)

  (* acceptance: A and B have the same dimensions and A equals p * B entrywise
     within ATOL + 1e-5 |p B_rc| (np.allclose(..., atol=ATOL); ATOL = 1e-7), for
     the ONE factor p = A_ij / B_ij read off
     at the first entry of A (row-major) of LARGEST modulus; neither A_ij nor
     B_ij is below ATOL *)
  Theorem equiv_up_to_phase_sound (A B : matR) :
    equiv_up_to_phase RNum A B = Ok true ->
    exists i j p,
      argmax_entry RNum A = Some (i, j) /\
      (i < length A)%nat /\ (j < length (nth i A []))%nat /\
      (forall r c, (r < length A)%nat -> (c < length (nth r A []))%nat ->
                   Cabs (mgetR A r c) <= Cabs (mgetR A i j)) /\
      (forall r c, (r < i)%nat \/ (r = i /\ c < j)%nat ->
                   (c < length (nth r A []))%nat -> Cabs (mgetR A r c) < Cabs (mgetR A i j)) /\
      ATOL <= Cabs (mgetR A i j) /\
      ATOL <= Cabs (mgetR B i j) /\
      p = cdiv RNum (mgetR A i j) (mgetR B i j) /\
      length A = length B /\
      (forall r, (r < length A)%nat -> length (nth r A []) = length (nth r B [])) /\
      forall r c, (r < length A)%nat -> (c < length (nth r A []))%nat ->
        Cabs (csub RNum (mgetR A r c) (cmul RNum p (mgetR B r c)))
        <= ATOL + 1 / 100000 * Cabs (cmul RNum p (mgetR B r c)).
  Proof.
    intros H. apply equiv_up_to_phase_true_iff in H. destruct H as [[i j] [Hfn [Ha [Hb Hc]]]].
    destruct (argmax_entry_spec _ _ _ Hfn) as [H2 [H3 [H4 H5]]].
    change (mat_get RNum A (i, j)) with (mgetR A i j) in Ha, Hc.
    change (mat_get RNum B (i, j)) with (mgetR B i j) in Hb, Hc.
    set (p := cdiv RNum (mgetR A i j) (mgetR B i j)) in *.
    apply mat_allclose_tol_sound in Hc. destruct Hc as [Hl [Hrows Hent]].
    change (atol RNum) with ATOL in Hent.
    rewrite mat_scale_length in Hl.
    exists i, j, p.
    split; [exact Hfn|]. split; [exact H2|]. split; [exact H3|]. split; [exact H4|].
    split; [exact H5|]. split; [now apply smallb_false_iff|]. split; [now apply smallb_false_iff|].
    split; [reflexivity|]. split; [exact Hl|]. split.
    - intros r Hr. rewrite (Hrows r Hr). apply mat_scale_row_length.
    - intros r c Hr Hc. specialize (Hent r c Hr Hc).
      rewrite mget_mat_scale in Hent; [exact Hent|lia|].
      rewrite <- (mat_scale_row_length RNum p B r), <- (Hrows r Hr). exact Hc.
  Qed.

  (* rejection: the largest entry of A is below ATOL (A is numerically zero), or B
     is (nearly) zero there, or allclose fails for that factor *)
  Theorem equiv_up_to_phase_false (A B : matR) :
    equiv_up_to_phase RNum A B = Ok false <->
    exists i j, argmax_entry RNum A = Some (i, j) /\
      (Cabs (mgetR A i j) < ATOL \/ Cabs (mgetR B i j) < ATOL \/
       (ATOL <= Cabs (mgetR A i j) /\ ATOL <= Cabs (mgetR B i j) /\
        mat_allclose_tol RNum ATOL A (mat_scale RNum (cdiv RNum (mgetR A i j) (mgetR B i j)) B) = false)).
  Proof.
    rewrite equiv_up_to_phase_false_iff. split.
    - intros [[i j] [Hfn H]]. exists i, j. split; [exact Hfn|].
      change (mat_get RNum A (i, j)) with (mgetR A i j) in H.
      change (mat_get RNum B (i, j)) with (mgetR B i j) in H.
      rewrite !smallb_iff, !smallb_false_iff in H. change (atol RNum) with ATOL in H. exact H.
    - intros [i [j [Hfn H]]]. exists (i, j). split; [exact Hfn|].
      change (mat_get RNum A (i, j)) with (mgetR A i j).
      change (mat_get RNum B (i, j)) with (mgetR B i j).
      rewrite !smallb_iff, !smallb_false_iff. change (atol RNum) with ATOL. exact H.
  Qed.

  (* giving np.allclose atol=ATOL only widens acceptance: whatever the comparison
     accepted with numpy's default 1e-8 it still accepts *)
  Theorem equiv_up_to_phase_accepts_more (A B : matR) :
    equiv_up_to_phase_with RNum (atol8 RNum) A B = Ok true -> equiv_up_to_phase RNum A B = Ok true.
  Proof.
    unfold equiv_up_to_phase_with, equiv_up_to_phase.
    destruct (argmax_entry RNum A) as [ij|]; [|discriminate].
    destruct (orb _ _); [discriminate|]. intros H. injection H as H. f_equal.
    apply (mat_allclose_tol_mono (atol8 RNum) (atol RNum)); [|exact H].
    unfold atol8, atol. rnum_cbn. lra.
  Qed.

  (* the only error is numpy's ValueError for np.argmax of an empty matrix *)
  Theorem equiv_up_to_phase_err (A B : matR) e :
    equiv_up_to_phase RNum A B = Err e <->
    e = EValue /\ (length A = 0 \/ length (nth 0 A []) = 0)%nat.
  Proof. rewrite equiv_up_to_phase_err_iff, argmax_entry_None. reflexivity. Qed.

  (* an all-zero (numerically zero) A is now REJECTED; before the repair Python's
     StopIteration escaped here (Err EOther) *)
  Theorem equiv_up_to_phase_all_small (A B : matR) :
    (0 < length A)%nat -> (0 < length (nth 0 A []))%nat ->
    (forall r c, (r < length A)%nat -> (c < length (nth r A []))%nat -> Cabs (mgetR A r c) < ATOL) ->
    equiv_up_to_phase RNum A B = Ok false.
  Proof.
    intros H1 H2 Hs. destruct (argmax_entry_exists RNum A H1 H2) as [[i j] E].
    destruct (argmax_entry_in_range RNum A i j E) as [Hi Hj].
    apply equiv_up_to_phase_false. exists i, j. split; [exact E|]. left. now apply Hs.
  Qed.

  (* ---- A.3  completeness for an exact global phase -------------------- *)

  Theorem equiv_up_to_phase_complete_exact (A B : matR) z r c :
    Cabs z = 1 -> A = mat_scale RNum z B ->
    (0 < length (nth 0 A []))%nat ->
    (r < length A)%nat -> (c < length (nth r A []))%nat -> ATOL <= Cabs (mgetR A r c) ->
    equiv_up_to_phase RNum A B = Ok true.
  Proof.
    intros Hz HA H0 Hr Hc Hbig.
    destruct (argmax_entry_exists RNum A ltac:(lia) H0) as [[i j] Hfn].
    destruct (argmax_entry_spec _ _ _ Hfn) as [H2 [H3 [H4 _]]].
    specialize (H4 r c Hr Hc).
    apply equiv_up_to_phase_true_iff. exists (i, j). split; [exact Hfn|].
    change (mat_get RNum A (i, j)) with (mgetR A i j).
    change (mat_get RNum B (i, j)) with (mgetR B i j).
    assert (HAij : mgetR A i j = cmul RNum z (mgetR B i j)).
    { rewrite HA. rewrite HA in H2, H3. rewrite mat_scale_length in H2.
      rewrite mat_scale_row_length in H3. now apply mget_mat_scale. }
    assert (HBabs : ATOL <= Cabs (mgetR B i j)).
    { rewrite HAij, Cabs_mul, Hz in H4. lra. }
    split; [apply smallb_false_iff; lra|]. split; [apply smallb_false_iff; exact HBabs|].
    rewrite HAij, cdiv_cmul_cancel.
    - rewrite <- HA. apply mat_allclose_tol_refl. change (atol RNum) with ATOL. pose proof ATOL_pos. lra.
    - apply Cabs_pos_sq. pose proof ATOL_pos. lra.
  Qed.

  Lemma mat_scale_one (A : matR) : mat_scale RNum (1, 0) A = A.
  Proof.
    unfold mat_scale. rewrite <- (map_id A) at 2. apply map_ext. intros row.
    rewrite <- (map_id row) at 2. apply map_ext. intros [x y].
    unfold cmul. rnum_cbn. apply pair_eq; ring.
  Qed.

  Corollary equiv_refl (A : matR) r c :
    (0 < length (nth 0 A []))%nat ->
    (r < length A)%nat -> (c < length (nth r A []))%nat -> ATOL <= Cabs (mgetR A r c) ->
    equiv_up_to_phase RNum A A = Ok true.
  Proof.
    intros H0 Hr Hc Hbig. apply (equiv_up_to_phase_complete_exact A A (1, 0) r c); try assumption.
    - unfold Cabs. cbn [fst snd]. replace (1 * 1 + 0 * 0) with 1 by ring. apply sqrt_1.
    - symmetry. apply mat_scale_one.
  Qed.

  (* the factor is not required to have modulus 1: [[1]] and [[2]] are still "equivalent" *)
  Lemma equiv_up_to_phase_accepts_non_phase :
    exists (A B : matR) (k : CR),
      B = mat_scale RNum k A /\ Cabs k = 2 /\ equiv_up_to_phase RNum A B = Ok true.
  Proof.
    exists [[(1, 0)]], [[(2, 0)]], (2, 0).
    assert (H1 : Cabs (1, 0) = 1).
    { unfold Cabs. cbn [fst snd]. replace (1 * 1 + 0 * 0) with 1 by ring. apply sqrt_1. }
    assert (H2 : Cabs (2, 0) = 2).
    { unfold Cabs. cbn [fst snd]. replace (2 * 2 + 0 * 0) with (2 * 2) by ring.
      apply sqrt_square. lra. }
    split; [|split; [exact H2|]].
    - unfold mat_scale, cmul. cbn [map]. rnum_cbn. mat_eq.
    - apply equiv_up_to_phase_true_iff. exists (0%nat, 0%nat).
      split; [|split; [|split]].
      + unfold argmax_entry. cbn [argmax_rows argmax_row snd]. cbv zeta.
        now destruct (nltb RNum _ _).
      + change (mat_get RNum [[(1, 0)]] (0%nat, 0%nat)) with (1, 0).
        apply smallb_false_iff. rewrite H1. unfold ATOL. lra.
      + change (mat_get RNum [[(2, 0)]] (0%nat, 0%nat)) with (2, 0).
        apply smallb_false_iff. rewrite H2. unfold ATOL. lra.
      + change (mat_get RNum [[(2, 0)]] (0%nat, 0%nat)) with (2, 0).
        change (mat_get RNum [[(1, 0)]] (0%nat, 0%nat)) with (1, 0).
        replace (mat_scale RNum (cdiv RNum (1, 0) (2, 0)) [[(2, 0)]]) with [[(1, 0)]].
        * apply mat_allclose_tol_refl. change (atol RNum) with ATOL. pose proof ATOL_pos. lra.
        * unfold mat_scale, cdiv, cmul, nsq. cbn [map]. rnum_cbn.
          repeat (apply f_equal2; [|reflexivity]). apply pair_eq; field.
  Qed.

  (* ---- A.4  the reference entry of a unitary matrix is well conditioned ---- *)

  Lemma fst_cadd_conj_mul (s z : CR) :
    fst (cadd RNum s (cmul RNum (cconj RNum z) z)) = fst s + (fst z * fst z + snd z * snd z).
  Proof. destruct s as [s1 s2], z as [x y]. unfold cadd, cmul, cconj. rnum_cbn. ring. Qed.

  Lemma gram_diag_le (U : matR) c M : forall n,
    (forall k, (k < n)%nat -> Cabs (mgetR U k c) * Cabs (mgetR U k c) <= M) ->
    fst (csum RNum n (fun k => cmul RNum (cconj RNum (mgetR U k c)) (mgetR U k c))) <= INR n * M.
  Proof.
    induction n as [|n IH]; intros H.
    - cbn [csum INR]. change (fst (czero RNum)) with 0. lra.
    - cbn [csum]. rewrite S_INR, fst_cadd_conj_mul.
      assert (Hn : fst (csum RNum n (fun k => cmul RNum (cconj RNum (mgetR U k c)) (mgetR U k c)))
                   <= INR n * M) by (apply IH; intros k Hk; apply H; lia).
      specialize (H n ltac:(lia)). rewrite Cabs_sq in H. lra.
  Qed.

  (* every column of a unitary d x d matrix has squared norm 1, so its largest entry
     has squared modulus >= 1/d; the entry np.argmax picks is at least that large.
     Hence the phase is taken from an entry of modulus >= 1/sqrt d, never from one
     that is only just above the tolerance. *)
  Theorem equiv_up_to_phase_well_conditioned d (A : matR) i j :
    unitary d A -> argmax_entry RNum A = Some (i, j) ->
    (0 < d)%nat /\ (i < d)%nat /\ (j < d)%nat /\
    1 <= INR d * (Cabs (mgetR A i j) * Cabs (mgetR A i j)) /\
    1 / INR d <= (Cabs (mgetR A i j)) ^ 2 /\
    1 / sqrt (INR d) <= Cabs (mgetR A i j).
  Proof.
    intros HU Hfn. pose proof HU as [HwA _].
    assert (HlA : length A = d) by (destruct HwA; assumption).
    destruct (argmax_entry_spec _ _ _ Hfn) as [Hi [Hj [Hmax _]]].
    assert (Hd : (0 < d)%nat) by lia.
    assert (Hi' : (i < d)%nat) by lia.
    rewrite (shape_row _ _ _ _ HwA Hi') in Hj.
    set (m := Cabs (mgetR A i j)) in *.
    assert (Hm0 : 0 <= m) by apply Cabs_nonneg.
    assert (Hsum : 1 <= INR d * (m * m)).
    { pose proof (unitary_entry d A 0 0 Hd HU Hd Hd) as Hcol. cbn [Nat.eqb] in Hcol.
      pose proof (gram_diag_le A 0%nat (m * m) d) as Hle. rewrite Hcol in Hle.
      change (fst (cone RNum)) with 1 in Hle. apply Hle. intros k Hk.
      assert (Hk0 : Cabs (mgetR A k 0) <= m).
      { apply Hmax; [lia|]. now rewrite (shape_row _ _ _ _ HwA Hk). }
      pose proof (Cabs_nonneg (mgetR A k 0)). nra. }
    assert (HdR : 0 < INR d) by (apply lt_0_INR; exact Hd).
    split; [exact Hd|]. split; [exact Hi'|]. split; [exact Hj|]. split; [exact Hsum|].
    assert (Hsq : 1 / INR d <= m ^ 2).
    { apply (Rmult_le_reg_l (INR d)); [exact HdR|]. replace (INR d * (1 / INR d)) with 1 by (field; lra).
      replace (m ^ 2) with (m * m) by ring. exact Hsum. }
    split; [exact Hsq|].
    assert (Hs : 0 < sqrt (INR d)) by (apply sqrt_lt_R0; exact HdR).
    assert (Hss : sqrt (INR d) * sqrt (INR d) = INR d) by (apply sqrt_sqrt; lra).
    apply (Rmult_le_reg_l (sqrt (INR d))); [exact Hs|].
    replace (sqrt (INR d) * (1 / sqrt (INR d))) with 1 by (field; lra).
    (* 1 <= s * m from 1 <= (s m)^2 *)
    assert (Hsm : 0 <= sqrt (INR d) * m) by (apply Rmult_le_pos; lra).
    destruct (Rle_lt_dec 1 (sqrt (INR d) * m)) as [Hok|Hlt]; [exact Hok|exfalso].
    assert (Hlt2 : (sqrt (INR d) * m) * (sqrt (INR d) * m) < 1) by nra.
    replace ((sqrt (INR d) * m) * (sqrt (INR d) * m))
      with ((sqrt (INR d) * sqrt (INR d)) * (m * m)) in Hlt2 by ring.
    rewrite Hss in Hlt2. lra.
  Qed.

  (* in particular (d < 10^14, i.e. fewer than 46 qubits) the test |A_ij| < ATOL never
     fires for a unitary A: rejection can only come from B or from allclose *)
  Corollary equiv_up_to_phase_reference_above_atol d (A : matR) i j :
    unitary d A -> argmax_entry RNum A = Some (i, j) -> INR d * (ATOL * ATOL) < 1 ->
    ATOL < Cabs (mgetR A i j).
  Proof.
    intros HU Hfn Hd. destruct (equiv_up_to_phase_well_conditioned d A i j HU Hfn) as [Hd0 [_ [_ [H _]]]].
    pose proof (Cabs_nonneg (mgetR A i j)) as Hm. pose proof ATOL_pos as Ha.
    assert (HdR : 0 < INR d) by (apply lt_0_INR; exact Hd0).
    destruct (Rlt_le_dec ATOL (Cabs (mgetR A i j))) as [Hok|Hle]; [exact Hok|exfalso].
    assert (Cabs (mgetR A i j) * Cabs (mgetR A i j) <= ATOL * ATOL) by nra.
    assert (INR d * (Cabs (mgetR A i j) * Cabs (mgetR A i j)) <= INR d * (ATOL * ATOL))
      by (apply Rmult_le_compat_l; lra).
    lra.
  Qed.
End CheckR.

(* ================================================================== *)
(* Part B, any T: the reindexer and check_gate_replacement             *)

Section CheckerT.
  Context {T : Type} (N : Num T).
  Notation C := (T * T)%type.
  Notation mat := (list (list C)).
  Notation gate := (gate T).

  (* ---- the reindexer ------------------------------------------------ *)

  (* [list.index] on every element; None as soon as one is missing *)
  Fixpoint zindices (idx : list Z) (l : list Z) : option (list Z) :=
    match l with
    | [] => Some []
    | q :: l' => match zindex q idx, zindices idx l' with
                 | Some i, Some r => Some (i :: r)
                 | _, _ => None
                 end
    end.

  Lemma zindices_Some idx l : forall r, zindices idx l = Some r ->
    length r = length l /\
    Forall (fun i => (0 <= i < Z.of_nat (length idx))%Z) r /\
    forall k, k < length l -> zindex (nth k l 0%Z) idx = Some (nth k r 0%Z).
  Proof.
    induction l as [|q l IH]; intros r H; cbn [zindices] in H.
    - injection H as <-. repeat split; [constructor|intros k Hk; cbn in Hk; lia].
    - destruct (zindex q idx) as [i|] eqn:Ei; [|discriminate].
      destruct (zindices idx l) as [r'|]; [|discriminate]. injection H as <-.
      destruct (IH r' eq_refl) as [Hl [Hf Hn]]. cbn [length]. repeat split.
      + now rewrite Hl.
      + constructor; [exact (proj1 (zindex_Some _ _ _ Ei))|exact Hf].
      + intros [|k] Hk; cbn [nth]; [exact Ei|apply Hn; lia].
  Qed.

  Lemma zindices_None idx l : zindices idx l = None <-> exists q, In q l /\ ~ In q idx.
  Proof.
    induction l as [|q l IH]; cbn [zindices In].
    - split; [discriminate|intros [q [[] _]]].
    - destruct (zindex q idx) as [i|] eqn:Ei.
      + destruct (zindices idx l) as [r'|].
        * split; [discriminate|]. intros [q' [[<-|Hin] Hn]].
          -- apply zindex_None in Hn. congruence.
          -- assert (H : Some r' = None) by (apply IH; now exists q'). discriminate.
        * split; [|reflexivity]. intros _. destruct (proj1 IH eq_refl) as [q' [Hin Hn]].
          exists q'. auto.
      + split; [|reflexivity]. intros _. exists q. split; [now left|]. now apply zindex_None.
  Qed.

  Lemma zindices_total idx l : (forall q, In q l -> In q idx) -> exists r, zindices idx l = Some r.
  Proof.
    intros H. destruct (zindices idx l) as [r|] eqn:E; [now exists r|].
    apply zindices_None in E. destruct E as [q [Hin Hn]]. exfalso. apply Hn. now apply H.
  Qed.

  (* distinct operands stay distinct *)
  Lemma zindices_NoDup idx l r : zindices idx l = Some r -> NoDup l -> NoDup r.
  Proof.
    intros H Hnd. destruct (zindices_Some _ _ _ H) as [Hl [_ Hn]].
    apply (proj2 (NoDup_nth r 0%Z)). intros a b Ha Hb Hab.
    rewrite Hl in Ha, Hb. apply (proj1 (NoDup_nth l 0%Z) Hnd a b Ha Hb).
    apply (zindex_inj _ _ idx (nth a r 0%Z)); [now apply Hn|rewrite Hab; now apply Hn].
  Qed.

  Lemma reindex_mat_go idx m : forall ops acc,
    (fix go (l : list Z) (acc : list Z) : result gate :=
       match l with
       | [] => mk_mat m (List.rev acc)
       | q :: l' => match zindex q idx with
                    | None => Err EValue
                    | Some i => go l' (i :: acc)
                    end
       end) ops acc =
    match zindices idx ops with
    | None => Err EValue
    | Some r => mk_mat m (List.rev acc ++ r)
    end.
  Proof.
    induction ops as [|q ops IH]; intros acc; cbn [zindices].
    - now rewrite app_nil_r.
    - destruct (zindex q idx) as [i|]; [|reflexivity]. rewrite IH.
      destruct (zindices idx ops) as [r|]; [|reflexivity].
      cbn [rev]. now rewrite <- app_assoc.
  Qed.

  Lemma reindex_gate_mat idx m ops :
    reindex_gate N idx (Mat m ops) =
    match zindices idx ops with None => Err EValue | Some r => mk_mat m r end.
  Proof. cbn [reindex_gate]. rewrite reindex_mat_go. reflexivity. Qed.

  Lemma mk_mat_err_inv (m : mat) ops e : mk_mat m ops = Err e -> e = EValue.
  Proof.
    unfold mk_mat. repeat match goal with |- context [if ?b then _ else _] => destruct b end;
      intros H; try discriminate; inversion H; reflexivity.
  Qed.

  (* the reindexer only ever raises ValueError *)
  Lemma reindex_gate_err idx g : forall e, reindex_gate N idx g = Err e -> e = EValue.
  Proof.
    induction g as [q ax a p|c g IH|m ops]; intros e H.
    - cbn [reindex_gate] in H. destruct (zindex q idx); [discriminate|]. now injection H as <-.
    - cbn [reindex_gate] in H. destruct (zindex c idx) as [i|]; [|now injection H as <-].
      destruct (reindex_gate N idx g) as [g''|e'].
      + now apply mk_ctrl_err_inv in H.
      + injection H as <-. now apply IH.
    - rewrite reindex_gate_mat in H. destruct (zindices idx ops) as [r|].
      + now apply mk_mat_err_inv in H.
      + now injection H as <-.
  Qed.

  (* on success the operands are the positions of the old ones in [idx] *)
  Lemma reindex_gate_qubits idx g : forall g', reindex_gate N idx g = Ok g' ->
    zindices idx (gate_qubits g) = Some (gate_qubits g').
  Proof.
    induction g as [q ax a p|c g IH|m ops]; intros g' H.
    - cbn [reindex_gate] in H. cbn [gate_qubits zindices].
      destruct (zindex q idx) as [i|]; [|discriminate]. injection H as <-. reflexivity.
    - cbn [reindex_gate] in H. cbn [gate_qubits zindices].
      destruct (zindex c idx) as [i|]; [|discriminate].
      destruct (reindex_gate N idx g) as [g''|e']; [|discriminate].
      apply mk_ctrl_ok_inv in H. destruct H as [-> _].
      rewrite (IH g'' eq_refl). reflexivity.
    - rewrite reindex_gate_mat in H. cbn [gate_qubits].
      destruct (zindices idx ops) as [r|]; [|discriminate].
      apply mk_mat_ok_inv in H. subst g'. reflexivity.
  Qed.

  Corollary reindex_gate_range idx g g' : reindex_gate N idx g = Ok g' ->
    forall q, In q (gate_qubits g') -> (0 <= q < Z.of_nat (length idx))%Z.
  Proof.
    intros H q Hq. apply reindex_gate_qubits in H.
    destruct (zindices_Some _ _ _ H) as [_ [Hf _]]. rewrite Forall_forall in Hf. now apply Hf.
  Qed.

  (* a qubit that is not listed: ValueError from list.index *)
  Lemma reindex_gate_missing idx g :
    (exists q, In q (gate_qubits g) /\ ~ In q idx) -> reindex_gate N idx g = Err EValue.
  Proof.
    intros Hq. destruct (reindex_gate N idx g) as [g'|e] eqn:E.
    - exfalso. apply reindex_gate_qubits in E.
      assert (Hn : zindices idx (gate_qubits g) = None) by now apply zindices_None.
      congruence.
    - f_equal. now apply reindex_gate_err in E.
  Qed.

  Lemma reindex_gates_err idx gs : forall e, reindex_gates N idx gs = Err e -> e = EValue.
  Proof.
    induction gs as [|g gs IH]; intros e H; cbn [reindex_gates] in H; [discriminate|].
    destruct (reindex_gate N idx g) as [g'|e'] eqn:E.
    - destruct (reindex_gates N idx gs) as [r|e'']; [discriminate|]. injection H as <-. now apply IH.
    - injection H as <-. now apply reindex_gate_err in E.
  Qed.

  Lemma reindex_gates_range idx gs : forall gs', reindex_gates N idx gs = Ok gs' ->
    forall g' q, In g' gs' -> In q (gate_qubits g') -> (0 <= q < Z.of_nat (length idx))%Z.
  Proof.
    induction gs as [|g gs IH]; intros gs' H g' q Hg Hq; cbn [reindex_gates] in H.
    - injection H as <-. destruct Hg.
    - destruct (reindex_gate N idx g) as [g1|e'] eqn:E; [|discriminate].
      destruct (reindex_gates N idx gs) as [r|e'']; [|discriminate]. injection H as <-.
      destruct Hg as [<-|Hg]; [now apply (reindex_gate_range idx g g1 E)|now apply (IH r eq_refl g' q)].
  Qed.

  (* with every operand below n the matrix calculator only raises ValueError *)
  Lemma gates_matrix_err n gs e :
    (forall g q, In g gs -> In q (gate_qubits g) -> (q < n)%Z) ->
    gates_matrix N n gs = Err e -> e = EValue.
  Proof.
    unfold gates_matrix, circuit_matrix. generalize (eye N (zpow2 n)) as acc.
    induction gs as [|g gs IH]; intros acc Hq H; cbn [map circuit_matrix_from] in H; [discriminate|].
    destruct (get_matrix N n g) as [G|e'] eqn:EG.
    - apply (IH (mmul N G acc)); [|exact H]. intros g0 q Hg. apply Hq. now right.
    - injection H as <-. apply (get_matrix_err_value N n g e'); [|exact EG].
      intros q Hin. apply (Hq g q); [now left|exact Hin].
  Qed.

  Theorem reindexed_matrix_err idx gs e : reindexed_matrix N idx gs = Err e -> e = EValue.
  Proof.
    unfold reindexed_matrix. destruct (reindex_gates N idx gs) as [gs'|e'] eqn:E.
    - apply gates_matrix_err. intros g q Hg Hq.
      apply (reindex_gates_range idx gs gs' E g q Hg Hq).
    - intros H. injection H as <-. now apply reindex_gates_err in E.
  Qed.

  (* every matrix the checker compares is 2^k x 2^k, k = number of listed qubits *)
  Theorem reindexed_matrix_wf idx gs M :
    reindexed_matrix N idx gs = Ok M -> wf_mat (2 ^ length idx) M.
  Proof.
    unfold reindexed_matrix. destruct (reindex_gates N idx gs) as [gs'|e']; [|discriminate].
    intros H. unfold gates_matrix in H.
    pose proof (circuit_matrix_wf N _ _ M H) as Hw. unfold zpow2 in Hw. now rewrite Nat2Z.id in Hw.
  Qed.

  (* the empty replacement is the identity on the gate's qubits *)
  Theorem reindexed_matrix_nil idx : reindexed_matrix N idx [] = Ok (eye N (2 ^ length idx)).
  Proof.
    unfold reindexed_matrix. cbn [reindex_gates]. unfold gates_matrix. cbn [map].
    rewrite circuit_matrix_nil. unfold zpow2. now rewrite Nat2Z.id.
  Qed.

  (* a replacement gate on a listed qubit only: operands missing from idx abort *)
  Lemma reindexed_matrix_missing idx gs g q :
    In g gs -> In q (gate_qubits g) -> ~ In q idx -> reindexed_matrix N idx gs = Err EValue.
  Proof.
    intros Hg Hq Hn. unfold reindexed_matrix.
    assert (H : reindex_gates N idx gs = Err EValue).
    { induction gs as [|g0 gs IH]; [destruct Hg|]. cbn [reindex_gates].
      destruct (reindex_gate N idx g0) as [g1|e] eqn:E.
      - destruct Hg as [->|Hg].
        + rewrite reindex_gate_missing in E by (now exists q). discriminate.
        + now rewrite (IH Hg).
      - f_equal. now apply reindex_gate_err in E. }
    now rewrite H.
  Qed.

  (* ---- B.4  check_gate_replacement ------------------------------------ *)

  Theorem check_replacement_spec g repl :
    check_replacement N g repl = Ok tt <->
    zsubset (gates_qubits repl) (gate_qubits g) = true /\
    exists A B,
      reindexed_matrix N (gate_qubits g) [g] = Ok A /\
      reindexed_matrix N (gate_qubits g) repl = Ok B /\
      equiv_up_to_phase N A B = Ok true.
  Proof.
    unfold check_replacement. cbv zeta.
    destruct (zsubset (gates_qubits repl) (gate_qubits g)); cbn [negb].
    2:{ split; [discriminate|]. intros [H _]. discriminate. }
    destruct (reindexed_matrix N (gate_qubits g) [g]) as [A|e].
    2:{ split; [discriminate|]. intros [_ [A [B [H _]]]]. discriminate. }
    destruct (reindexed_matrix N (gate_qubits g) repl) as [B|e].
    2:{ split; [discriminate|]. intros [_ [A' [B' [_ [H _]]]]]. discriminate. }
    destruct (equiv_up_to_phase N A B) as [[|]|e] eqn:E.
    - split; [|reflexivity]. intros _. split; [reflexivity|]. exists A, B. auto.
    - split; [discriminate|]. intros [_ [A' [B' [HA [HB H]]]]].
      injection HA as <-. injection HB as <-. congruence.
    - split; [discriminate|]. intros [_ [A' [B' [HA [HB H]]]]].
      injection HA as <-. injection HB as <-. congruence.
  Qed.

  Lemma gates_qubits_In (repl : list gate) q :
    In q (gates_qubits repl) <-> exists g', In g' repl /\ In q (gate_qubits g').
  Proof. unfold gates_qubits. apply in_flat_map. Qed.

  (* a replacement touching a qubit outside the gate's operands is refused with
     ValueError before any matrix is built *)
  Theorem check_rejects_foreign_qubit g repl g' q :
    In g' repl -> In q (gate_qubits g') -> ~ In q (gate_qubits g) ->
    check_replacement N g repl = Err EValue.
  Proof.
    intros Hg Hq Hn. unfold check_replacement. cbv zeta.
    assert (H : zsubset (gates_qubits repl) (gate_qubits g) = false).
    { apply not_true_is_false. intros H. rewrite zsubset_spec in H. apply Hn, H.
      apply gates_qubits_In. now exists g'. }
    now rewrite H.
  Qed.

  (* the subset test is exactly "every operand of every replacement gate is an
     operand of the gate"; in particular FEWER qubits are allowed *)
  Lemma check_subset_iff (g : gate) (repl : list gate) :
    zsubset (gates_qubits repl) (gate_qubits g) = true <->
    forall g' q, In g' repl -> In q (gate_qubits g') -> In q (gate_qubits g).
  Proof.
    rewrite zsubset_spec. split.
    - intros H g' q Hg Hq. apply H, gates_qubits_In. now exists g'.
    - intros H q Hq. apply gates_qubits_In in Hq. destruct Hq as [g' [Hg Hq]]. now apply (H g').
  Qed.

  (* errors: only ValueError (wrong qubits, a constructor refusing the reindexed gate,
     a matrix gate of the wrong size, matrices not equivalent).  Before the repair of
     are_matrices_equivalent_up_to_global_phase a StopIteration escaped (Err EOther)
     when the gate's own matrix had no entry above ATOL; now np.argmax always answers
     on the 2^k x 2^k matrix and such a gate is rejected with ValueError *)
  Theorem check_replacement_error_kinds g repl e :
    check_replacement N g repl = Err e -> e = EValue.
  Proof.
    unfold check_replacement. cbv zeta.
    destruct (zsubset (gates_qubits repl) (gate_qubits g)); cbn [negb].
    2:{ intros H. now injection H as <-. }
    destruct (reindexed_matrix N (gate_qubits g) [g]) as [A|e1] eqn:EA.
    2:{ intros H. injection H as <-. now apply reindexed_matrix_err in EA. }
    destruct (reindexed_matrix N (gate_qubits g) repl) as [B|e2] eqn:EB.
    2:{ intros H. injection H as <-. now apply reindexed_matrix_err in EB. }
    destruct (equiv_up_to_phase N A B) as [[|]|e3] eqn:E.
    - discriminate.
    - intros H. now injection H as <-.
    - intros H. injection H as <-. apply equiv_up_to_phase_err_iff in E. now destruct E as [-> _].
  Qed.

  (* the comparison itself never fails inside the checker *)
  Lemma check_replacement_equiv_total (g : gate) (A B : mat) :
    reindexed_matrix N (gate_qubits g) [g] = Ok A ->
    exists b, equiv_up_to_phase N A B = Ok b.
  Proof.
    intros HA. apply (equiv_up_to_phase_total_wf N (2 ^ length (gate_qubits g))).
    - apply Nat.neq_0_lt_0, Nat.pow_nonzero. lia.
    - exact (reindexed_matrix_wf _ _ _ HA).
  Qed.

  (* the result, when it is Ok, is Ok tt *)
  Lemma check_replacement_ok_tt g repl u : check_replacement N g repl = Ok u -> u = tt.
  Proof. now destruct u. Qed.
End CheckerT.

(* ================================================================== *)
(* Part B at RNum: the identity gate, soundness of the checker         *)

Section CheckerR.
  Local Open Scope R_scope.
  Notation CR := (R * R)%type.
  Notation matR := (list (list (R * R))).
  Notation mgetR := (mget RNum).

  Lemma normalize_zero : normalize_angle RNum 0 = 0.
  Proof. apply normalize_id. pose proof PI_bounds. lra. Qed.
  Lemma normalize_PI : normalize_angle RNum PI = PI.
  Proof. apply normalize_id. pose proof PI_bounds. lra. Qed.
  Lemma normalize_PI2 : normalize_angle RNum (PI / 2) = PI / 2.
  Proof. apply normalize_id. pose proof PI_bounds. lra. Qed.

  Lemma Cabs_one : Cabs (1, 0) = 1.
  Proof. unfold Cabs. cbn [fst snd]. replace (1 * 1 + 0 * 0) with 1 by ring. apply sqrt_1. Qed.

  Lemma Cabs_cis p : Cabs (cis RNum p) = 1.
  Proof.
    unfold Cabs, cis. rnum_cbn. replace (cos p * cos p + sin p * sin p) with 1.
    - apply sqrt_1.
    - pose proof (sin2_cos2 p) as H. unfold Rsqr in H. lra.
  Qed.

  (* ---- B.5  the empty replacement is accepted for an identity gate ------ *)

  Theorem check_accepts_empty_for_identity (g : gate R) A z :
    reindexed_matrix RNum (gate_qubits g) [g] = Ok A ->
    A = mat_scale RNum z (eye RNum (2 ^ length (gate_qubits g))%nat) -> Cabs z = 1 ->
    check_replacement RNum g [] = Ok tt.
  Proof.
    intros HA HAz Hz. apply check_replacement_spec. split; [reflexivity|].
    set (d := (2 ^ length (gate_qubits g))%nat) in *.
    assert (Hd : (0 < d)%nat) by (apply Nat.neq_0_lt_0, Nat.pow_nonzero; lia).
    exists A, (eye RNum d). split; [exact HA|]. split; [apply reindexed_matrix_nil|].
    destruct (shape_eye RNum d) as [Hl _].
    pose proof (shape_row _ _ _ 0%nat (shape_eye RNum d) Hd) as Hr0.
    apply (equiv_up_to_phase_complete_exact A (eye RNum d) z 0 0 Hz HAz).
    - rewrite HAz, mat_scale_row_length, Hr0. exact Hd.
    - rewrite HAz, mat_scale_length, Hl. exact Hd.
    - rewrite HAz, mat_scale_row_length, Hr0. exact Hd.
    - rewrite HAz, mget_mat_scale by (rewrite ?Hl, ?Hr0; exact Hd).
      rewrite mget_eye by exact Hd. cbn [Nat.eqb]. rewrite Cabs_mul, Hz.
      change (cone RNum) with (1, 0). rewrite Cabs_one. unfold ATOL. lra.
  Qed.

  (* a rotation by angle 0, any axis, any phase, any qubit index: on its own
     qubit its matrix is e^{i phase} I *)
  Lemma reindexed_matrix_zero_rotation q ax p :
    reindexed_matrix RNum [q] [BSR q ax 0 p] =
    Ok (mat_scale RNum (cis RNum (normalize_angle RNum p)) (eye RNum 2)).
  Proof.
    unfold reindexed_matrix. cbn [reindex_gates reindex_gate zindex]. rewrite Z.eqb_refl.
    unfold mk_bsr_ax. rewrite normalize_zero. cbn [length Z.of_nat Pos.of_succ_nat].
    unfold gates_matrix, circuit_matrix. cbn [map circuit_matrix_from get_matrix].
    change (Z.geb 0 1) with false. change (Z.ltb 0 0) with false. cbv iota.
    change (zpow2 (1 - 0 - 1)) with 1%nat. change (zpow2 0) with 1%nat. change (zpow2 1) with 2%nat.
    set (p' := normalize_angle RNum p).
    assert (Hs : shape (1 * 2 * 1) (1 * 2 * 1)
                   (kron RNum (kron RNum (eye RNum 1) (can1 RNum ax 0 p')) (eye RNum 1))).
    { apply shape_kron; [apply shape_kron; [apply shape_eye|apply shape_can1]|apply shape_eye]. }
    rewrite (mmul_eye_r 2 2); [|lia|exact Hs]. f_equal.
    unfold kron, eye, unit_row, can1, mat_scale, nhalf, n2. cbn [seq map flat_map Nat.eqb app].
    unfold cmul, cis, c1, c0, n1, n0. rnum_cbn. replace (0 / 2) with 0 by field.
    rewrite cos_0, sin_0. mat_eq.
  Qed.

  Theorem check_accepts_empty_for_zero_rotation q ax p :
    check_replacement RNum (BSR q ax 0 p) [] = Ok tt.
  Proof.
    apply (check_accepts_empty_for_identity _
             (mat_scale RNum (cis RNum (normalize_angle RNum p)) (eye RNum 2))
             (cis RNum (normalize_angle RNum p))); [|reflexivity|apply Cabs_cis].
    apply reindexed_matrix_zero_rotation.
  Qed.

  (* ---- B.6  soundness of acceptance ------------------------------------- *)

  (* acceptance means: the replacement only touches the gate's own k qubits, both
     2^k x 2^k matrices on those qubits exist, and they agree entrywise up to ONE
     complex factor p (read off at the first entry of LARGEST modulus of the gate's
     matrix; neither that entry nor the replacement's is below ATOL) within
     ATOL + 1e-5 |p B_rc| (ATOL = 1e-7: np.allclose is called with atol=ATOL) *)
  Theorem check_sound (g : gate R) (repl : list (gate R)) :
    check_replacement RNum g repl = Ok tt ->
    (forall g' q, In g' repl -> In q (gate_qubits g') -> In q (gate_qubits g)) /\
    exists A B p i j,
      let d := (2 ^ length (gate_qubits g))%nat in
      reindexed_matrix RNum (gate_qubits g) [g] = Ok A /\
      reindexed_matrix RNum (gate_qubits g) repl = Ok B /\
      wf_mat d A /\ wf_mat d B /\
      (i < d)%nat /\ (j < d)%nat /\
      argmax_entry RNum A = Some (i, j) /\
      (forall r c, (r < d)%nat -> (c < d)%nat -> Cabs (mgetR A r c) <= Cabs (mgetR A i j)) /\
      ATOL <= Cabs (mgetR A i j) /\ ATOL <= Cabs (mgetR B i j) /\
      p = cdiv RNum (mgetR A i j) (mgetR B i j) /\
      forall r c, (r < d)%nat -> (c < d)%nat ->
        Cabs (csub RNum (mgetR A r c) (cmul RNum p (mgetR B r c)))
        <= ATOL + 1 / 100000 * Cabs (cmul RNum p (mgetR B r c)).
  Proof.
    intros H. apply check_replacement_spec in H. destruct H as [Hsub [A [B [HA [HB He]]]]].
    split; [now apply check_subset_iff|].
    pose proof (reindexed_matrix_wf _ _ _ _ HA) as HwA.
    pose proof (reindexed_matrix_wf _ _ _ _ HB) as HwB.
    apply equiv_up_to_phase_sound in He.
    destruct He as [i [j [p [Hfn [Hi [Hj [Hmax [_ [HbA [HbB [Hp [_ [_ Hent]]]]]]]]]]]]].
    set (d := (2 ^ length (gate_qubits g))%nat) in *.
    assert (HlA : length A = d) by (destruct HwA; assumption).
    assert (Hi' : (i < d)%nat) by lia.
    rewrite (shape_row _ _ _ _ HwA Hi') in Hj.
    assert (Hmax' : forall r c, (r < d)%nat -> (c < d)%nat -> Cabs (mgetR A r c) <= Cabs (mgetR A i j)).
    { intros r c Hr Hc. apply Hmax; [lia|]. now rewrite (shape_row _ _ _ _ HwA Hr). }
    exists A, B, p, i, j. cbv zeta. fold d.
    do 11 (split; [assumption|]).
    intros r c Hr Hc. apply Hent; [lia|]. now rewrite (shape_row _ _ _ _ HwA Hr).
  Qed.
End CheckerR.

(* ================================================================== *)
(* Part C: equality of gates                                           *)

Section EqR.
  Local Open Scope R_scope.

  (* np.isclose on reals and np.allclose on axes, spelled out *)
  Definition Close_r (a b : R) : Prop := Rabs (a - b) <= 1 / 100000000 + 1 / 100000 * Rabs b.
  Definition Close_axis (a b : axis3 R) : Prop :=
    Close_r (ax_x a) (ax_x b) /\ Close_r (ax_y a) (ax_y b) /\ Close_r (ax_z a) (ax_z b).

  Lemma close_r_iff a b : close_r RNum a b = true <-> Close_r a b.
  Proof. unfold close_r, Close_r. cbn [nleb RNum]. apply Rleb_true. Qed.

  Lemma close_axis_iff a b : close_axis RNum a b = true <-> Close_axis a b.
  Proof.
    unfold close_axis, Close_axis. rewrite !andb_true_iff, !close_r_iff. tauto.
  Qed.

  Lemma neg_axis_R x y z : neg_axis RNum (x, y, z) = (- x, - y, - z).
  Proof. reflexivity. Qed.

  Lemma Rltb_reflect x y : reflect (x < y) (Rltb x y).
  Proof. apply iff_reflect. symmetry. apply Rltb_true. Qed.
  Lemma Rleb_reflect x y : reflect (x <= y) (Rleb x y).
  Proof. apply iff_reflect. symmetry. apply Rleb_true. Qed.
  Lemma close_axis_reflect a b : reflect (Close_axis a b) (close_axis RNum a b).
  Proof. apply iff_reflect. symmetry. apply close_axis_iff. Qed.

  Lemma Close_r_refl a : Close_r a a.
  Proof.
    unfold Close_r. replace (a - a) with 0 by ring. rewrite Rabs_R0.
    pose proof (Rabs_pos a). lra.
  Qed.
  Lemma Close_axis_refl a : Close_axis a a.
  Proof. repeat split; apply Close_r_refl. Qed.

  (* ---- C.7  BlochSphereRotation.__eq__ (as repaired) --------------------- *)

  (* exactly when the field-wise equality answers True: two (near-)zero rotations
     with equal phases, whatever their axes AND whichever qubits they are written
     on; otherwise the same qubit and one of three representations of one rotation *)
  Theorem bsr_eq_iff q1 ax1 a1 p1 q2 ax2 a2 p2 :
    bsr_eq RNum q1 ax1 a1 p1 q2 ax2 a2 p2 = true <->
    ((Rabs a1 < ATOL /\ Rabs a2 < ATOL /\ Rabs (p1 - p2) <= ATOL) \/
     (~ (Rabs a1 < ATOL /\ Rabs a2 < ATOL) /\ q1 = q2 /\
      ((Close_axis ax1 ax2 /\ Rabs (p1 - p2) <= ATOL /\ Rabs (a1 - a2) < ATOL) \/
       (~ Close_axis ax1 ax2 /\ Close_axis ax1 (neg_axis RNum ax2) /\
        ((Rabs (p1 - p2) <= ATOL /\ Rabs (a1 + a2) < ATOL) \/
         (Rabs (Rabs (p1 - p2) - PI) <= ATOL /\
          Rabs (Rabs a1 - PI) < ATOL /\ Rabs (Rabs a2 - PI) < ATOL)))))).
  Proof.
    unfold bsr_eq. cbv zeta.
    cbn [nleb nltb nabs nsub nadd RNum]. change (atol RNum) with ATOL. change (pi RNum) with PI.
    destruct (Rltb_reflect (Rabs a1) ATOL) as [S1|S1];
      destruct (Rltb_reflect (Rabs a2) ATOL) as [S2|S2]; cbn [andb].
    1:{ destruct (Rleb_reflect (Rabs (p1 - p2)) ATOL) as [P|P];
          (split; [intros Ht; first [discriminate Ht|tauto]|intros Hd; first [reflexivity|exfalso; tauto]]). }
    all: destruct (Z.eqb_spec q1 q2) as [Hq|Hq]; cbn [negb];
      [|split; [intros Ht; discriminate Ht|intros Hd; exfalso; tauto]].
    all: destruct (close_axis_reflect ax1 ax2) as [X1|X1];
      [destruct (Rleb_reflect (Rabs (p1 - p2)) ATOL) as [P|P];
       destruct (Rltb_reflect (Rabs (a1 - a2)) ATOL) as [D|D]; cbn [andb];
       (split; [intros Ht; first [discriminate Ht|tauto]|intros Hd; first [reflexivity|exfalso; tauto]])
      |destruct (close_axis_reflect ax1 (neg_axis RNum ax2)) as [X2|X2];
       [destruct (Rleb_reflect (Rabs (p1 - p2)) ATOL) as [P|P];
        destruct (Rltb_reflect (Rabs (a1 + a2)) ATOL) as [D'|D'];
        destruct (Rleb_reflect (Rabs (Rabs (p1 - p2) - PI)) ATOL) as [O|O];
        destruct (Rltb_reflect (Rabs (Rabs a1 - PI)) ATOL) as [H1|H1];
        destruct (Rltb_reflect (Rabs (Rabs a2 - PI)) ATOL) as [H2|H2]; cbn [andb];
        (split; [intros Ht; first [discriminate Ht|tauto]|intros Hd; first [reflexivity|exfalso; tauto]])
       |split; [intros Ht; discriminate Ht|intros Hd; exfalso; tauto]]].
  Qed.

  (* soundness: both are (near-)identity rotations with the same phase, or they sit
     on the same qubit and match in one of the three accepting representations *)
  Theorem bsr_eq_sound q1 ax1 a1 p1 q2 ax2 a2 p2 :
    bsr_eq RNum q1 ax1 a1 p1 q2 ax2 a2 p2 = true ->
    (Rabs a1 < ATOL /\ Rabs a2 < ATOL /\ Rabs (p1 - p2) <= ATOL) \/
    (q1 = q2 /\
     ((Close_axis ax1 ax2 /\ Rabs (p1 - p2) <= ATOL /\ Rabs (a1 - a2) < ATOL) \/
      (Close_axis ax1 (neg_axis RNum ax2) /\ Rabs (p1 - p2) <= ATOL /\ Rabs (a1 + a2) < ATOL) \/
      (Close_axis ax1 (neg_axis RNum ax2) /\ Rabs (Rabs (p1 - p2) - PI) <= ATOL /\
       Rabs (Rabs a1 - PI) < ATOL /\ Rabs (Rabs a2 - PI) < ATOL))).
  Proof. intros H. apply bsr_eq_iff in H. tauto. Qed.

  Theorem bsr_eq_refl q ax a p : bsr_eq RNum q ax a p q ax a p = true.
  Proof.
    apply bsr_eq_iff.
    assert (H0 : Rabs (p - p) <= ATOL).
    { replace (p - p) with 0 by ring. rewrite Rabs_R0. pose proof ATOL_pos. lra. }
    assert (H1 : Rabs (a - a) < ATOL).
    { replace (a - a) with 0 by ring. rewrite Rabs_R0. apply ATOL_pos. }
    destruct (Rlt_dec (Rabs a) ATOL) as [Hs|Hs].
    - left. auto.
    - right. split; [tauto|]. split; [reflexivity|]. left.
      split; [apply Close_axis_refl|]. auto.
  Qed.

  (* F15 as repaired: rotations by (nearly) zero angles are equal whatever their
     axes, and whichever qubit each is written on *)
  Theorem bsr_eq_identity_any_axis_gen q1 ax1 a1 p1 q2 ax2 a2 p2 :
    Rabs a1 < ATOL -> Rabs a2 < ATOL -> Rabs (p1 - p2) <= ATOL ->
    bsr_eq RNum q1 ax1 a1 p1 q2 ax2 a2 p2 = true.
  Proof. intros. apply bsr_eq_iff. left. auto. Qed.

  Theorem bsr_eq_identity_any_axis q :
    bsr_eq RNum q (1, 0, 0) 0 0 q (0, 0, 1) 0 0 = true.
  Proof.
    apply bsr_eq_identity_any_axis_gen; rewrite ?Rminus_0_r, Rabs_R0; pose proof ATOL_pos; lra.
  Qed.

  Theorem bsr_eq_identity_any_qubit q1 q2 ax1 ax2 :
    bsr_eq RNum q1 ax1 0 0 q2 ax2 0 0 = true.
  Proof.
    apply bsr_eq_identity_any_axis_gen; rewrite ?Rminus_0_r, Rabs_R0; pose proof ATOL_pos; lra.
  Qed.

  (* ... and these are the same operator *)
  Lemma can1_zero_angle_axis_irrelevant ax1 ax2 p : can1 RNum ax1 0 p = can1 RNum ax2 0 p.
  Proof.
    unfold can1, nhalf, n2, cmul, cis. rnum_cbn. replace (0 / 2) with 0 by field.
    rewrite cos_0, sin_0. mat_eq.
  Qed.

  (* the half turn about -n is minus the half turn about n: phases differ by pi *)
  Theorem bsr_eq_half_turn_negated q :
    bsr_eq RNum q (1, 0, 0) PI (PI / 2) q (-1, 0, 0) PI (- (PI / 2)) = true.
  Proof.
    pose proof PI_bounds as HPI. pose proof ATOL_pos as HA. unfold ATOL in HA.
    assert (RPI : Rabs PI = PI) by (apply Rabs_pos_eq; lra).
    apply bsr_eq_iff. right. rewrite RPI.
    split; [|split; [reflexivity|right; split; [|split]]].
    - intros [H _]. unfold ATOL in H. lra.
    - intros [H _]. unfold Close_r, ax_x in H. cbn [fst snd] in H.
      replace (1 - -1) with 2 in H by ring. rewrite (Rabs_left (-1)) in H by lra.
      rewrite (Rabs_pos_eq 2) in H by lra. lra.
    - rewrite neg_axis_R. unfold Close_axis, Close_r, ax_x, ax_y, ax_z. cbn [fst snd].
      replace (1 - - -1) with 0 by ring. replace (0 - - 0) with 0 by ring.
      rewrite Rabs_R0. pose proof (Rabs_pos (- -1)). pose proof (Rabs_pos (- 0)). lra.
    - right. replace (PI / 2 - - (PI / 2)) with PI by field. rewrite RPI.
      replace (PI - PI) with 0 by ring. rewrite Rabs_R0. unfold ATOL. lra.
  Qed.

  (* The statement first asked for, written for the equality BEFORE the repairs,
       bsr_eq ... = true -> q1 = q2 /\ Rabs (p1 - p2) <= ATOL /\
         ((Close_axis ax1 ax2 /\ Rabs (a1 - a2) < ATOL) \/
          (Close_axis ax1 (neg_axis ax2) /\ Rabs (a1 + a2) < ATOL))
     no longer holds (half turns about opposite axes are equal with phases pi apart;
     zero rotations are equal whatever their axes and qubits); [bsr_eq_sound] above is
     the true one.  Likewise [bsr_eq_complete_refuted] (F15: Rx-axis and Rz-axis
     rotations by 0 told apart) is now false: [bsr_eq_identity_any_axis] proves the
     opposite. *)
  Theorem bsr_eq_old_spec_refuted :
    (exists q ax1 a1 p1 ax2 a2 p2,
       bsr_eq RNum q ax1 a1 p1 q ax2 a2 p2 = true /\ ~ Rabs (p1 - p2) <= ATOL) /\
    (exists q1 q2 ax a p, bsr_eq RNum q1 ax a p q2 ax a p = true /\ q1 <> q2).
  Proof.
    split.
    - exists 0%Z, (1, 0, 0), PI, (PI / 2), (-1, 0, 0), PI, (- (PI / 2)).
      split; [apply bsr_eq_half_turn_negated|].
      pose proof PI_bounds as HPI. replace (PI / 2 - - (PI / 2)) with PI by field.
      rewrite Rabs_pos_eq by lra. unfold ATOL. lra.
    - exists 0%Z, 1%Z, (1, 0, 0), 0, 0. split; [apply bsr_eq_identity_any_qubit|discriminate].
  Qed.

  Lemma can1_X : can1 RNum (1, 0, 0) PI (PI / 2) = [[(0, 0); (1, 0)]; [(1, 0); (0, 0)]].
  Proof.
    unfold can1, nhalf, n2, cmul, cis, ax_x, ax_y, ax_z. rnum_cbn.
    rewrite cos_PI2, sin_PI2. mat_eq.
  Qed.

  Lemma can1_half_turn_negated_X :
    can1 RNum (1, 0, 0) PI (PI / 2) = can1 RNum (-1, 0, 0) PI (- (PI / 2)).
  Proof.
    rewrite can1_X.
    unfold can1, nhalf, n2, cmul, cis, ax_x, ax_y, ax_z. rnum_cbn.
    rewrite cos_neg, sin_neg, cos_PI2, sin_PI2. mat_eq.
  Qed.

  (* the accepting branches, in the exact case, relate equal operators *)
  Lemma can1_neg_axis_neg_angle ax a p : can1 RNum ax a p = can1 RNum (neg_axis RNum ax) (- a) p.
  Proof.
    destruct ax as [[x y] z].
    unfold can1, neg_axis, nhalf, n2, cmul, cis, ax_x, ax_y, ax_z. rnum_cbn.
    replace (- a / 2) with (- (a / 2)) by field. rewrite cos_neg, sin_neg. mat_eq.
  Qed.

  Lemma can1_half_turn_negated ax p : can1 RNum ax PI (p + PI) = can1 RNum (neg_axis RNum ax) PI p.
  Proof.
    destruct ax as [[x y] z].
    unfold can1, neg_axis, nhalf, n2, cmul, cis, ax_x, ax_y, ax_z. rnum_cbn.
    rewrite neg_cos, neg_sin, cos_PI2, sin_PI2. mat_eq.
  Qed.
End EqR.

(* ---- C.8 / C.9, any T: the dispatch of ==, compare_gates ----------------- *)

Section DispatchT.
  Context {T : Type} (N : Num T).
  Notation gate := (gate T).

  Definition is_bsr (g : gate) : bool := match g with BSR _ _ _ _ => true | _ => false end.

  (* two rotations: BlochSphereRotation.__eq__ compares the fields *)
  Theorem gate_eq_bsr_bsr q1 ax1 a1 p1 q2 ax2 a2 p2 :
    gate_eq N (BSR q1 ax1 a1 p1) (BSR q2 ax2 a2 p2) = Ok (bsr_eq N q1 ax1 a1 p1 q2 ax2 a2 p2).
  Proof. reflexivity. Qed.

  (* anything else, in either order: the operations are compared (as repaired; the
     rotation's __eq__ used to answer False for every other class, finding F17) *)
  Theorem gate_eq_dispatch g1 g2 :
    is_bsr g1 && is_bsr g2 = false -> gate_eq N g1 g2 = compare_gates N g1 g2.
  Proof. destruct g1, g2; cbn [is_bsr andb]; intros H; try discriminate H; reflexivity. Qed.

  Corollary gate_eq_dispatch_l g1 g2 : is_bsr g1 = false -> gate_eq N g1 g2 = compare_gates N g1 g2.
  Proof. intros H. apply gate_eq_dispatch. now rewrite H. Qed.
  Corollary gate_eq_dispatch_r g1 g2 : is_bsr g2 = false -> gate_eq N g1 g2 = compare_gates N g1 g2.
  Proof. intros H. apply gate_eq_dispatch. rewrite H. apply andb_false_r. Qed.

  (* compare_gates looks at the gates only through their matrices in the union order *)
  Theorem compare_gates_ord_depends_only_on_matrices order g1 g2 g1' g2' :
    reindexed_matrix N order [g1] = reindexed_matrix N order [g1'] ->
    reindexed_matrix N order [g2] = reindexed_matrix N order [g2'] ->
    compare_gates_ord N order g1 g2 = compare_gates_ord N order g1' g2'.
  Proof. unfold compare_gates_ord. intros -> ->. reflexivity. Qed.

  Theorem compare_gates_ord_spec order g1 g2 b :
    compare_gates_ord N order g1 g2 = Ok b <->
    exists A B, reindexed_matrix N order [g1] = Ok A /\ reindexed_matrix N order [g2] = Ok B /\
                equiv_up_to_phase N A B = Ok b.
  Proof.
    unfold compare_gates_ord.
    destruct (reindexed_matrix N order [g1]) as [A|e].
    2:{ split; [discriminate|]. intros [A [B [H _]]]. discriminate. }
    destruct (reindexed_matrix N order [g2]) as [B|e].
    2:{ split; [discriminate|]. intros [A' [B' [_ [H _]]]]. discriminate. }
    split.
    - intros H. exists A, B. auto.
    - intros [A' [B' [HA [HB H]]]]. injection HA as <-. injection HB as <-. exact H.
  Qed.

  (* the union order lists every qubit of both gates exactly once, so list.index
     cannot fail during the reindexing inside compare_gates *)
  Theorem union_order_covers (g1 g2 : gate) :
    (forall q, In q (union_order g1 g2) <-> In q (gate_qubits g1) \/ In q (gate_qubits g2)) /\
    NoDup (union_order g1 g2) /\
    (exists r1, zindices (union_order g1 g2) (gate_qubits g1) = Some r1) /\
    (exists r2, zindices (union_order g1 g2) (gate_qubits g2) = Some r2).
  Proof.
    assert (Hin : forall q, In q (union_order g1 g2) <-> In q (gate_qubits g1) \/ In q (gate_qubits g2)).
    { intros q. unfold union_order. rewrite zdedup_In_iff, in_app_iff. reflexivity. }
    split; [exact Hin|]. split; [apply zdedup_NoDup|].
    split; apply zindices_total; intros q Hq; apply Hin; auto.
  Qed.

  (* ---- the reindexer succeeds on valid gates whose qubits are all listed ---- *)

  (* what the constructors of ir.py enforce *)
  Fixpoint gate_valid (g : gate) : Prop :=
    match g with
    | BSR _ _ _ _ => True
    | Ctrl c g' => NoDup (c :: gate_qubits g') /\ gate_valid g'
    | Mat m ops => 2 <= length ops /\ NoDup ops /\ wf_mat (2 ^ length ops) m
    end.

  Lemma reindex_gate_total idx g :
    (forall q, In q (gate_qubits g) -> In q idx) -> gate_valid g ->
    exists g', reindex_gate N idx g = Ok g' /\ gate_valid g'.
  Proof.
    induction g as [q ax a p|c g IH|m ops]; intros Hq Hv; cbn [gate_qubits gate_valid] in *.
    - destruct (zindex_In q idx (Hq q (or_introl eq_refl))) as [i Hi].
      cbn [reindex_gate]. rewrite Hi. eexists. split; [reflexivity|exact I].
    - destruct Hv as [Hnd Hv].
      destruct IH as [g'' [Hg'' Hv'']]; [intros q Hin; apply Hq; now right|exact Hv|].
      destruct (zindex_In c idx (Hq c (or_introl eq_refl))) as [i Hi].
      cbn [reindex_gate]. rewrite Hi, Hg''.
      assert (Hz : zindices idx (c :: gate_qubits g) = Some (i :: gate_qubits g'')).
      { cbn [zindices]. now rewrite Hi, (reindex_gate_qubits N idx g g'' Hg''). }
      pose proof (zindices_NoDup _ _ _ Hz Hnd) as Hnd'.
      exists (Ctrl i g''). split; [|split; assumption].
      apply mk_ctrl_ok_iff. now apply znodup_NoDup.
    - destruct Hv as [Hlen [Hnd Hwf]].
      destruct (zindices_total idx ops Hq) as [r Hr].
      rewrite reindex_gate_mat, Hr.
      destruct (zindices_Some _ _ _ Hr) as [Hl _].
      pose proof (zindices_NoDup _ _ _ Hr Hnd) as Hnd'.
      exists (Mat m r). split.
      + apply mk_mat_ok_iff. split; [lia|]. split; [now apply znodup_NoDup|].
        unfold ConstructP.mat_shape_ok, pow2. rewrite Hl. exact Hwf.
      + cbn [gate_valid]. rewrite Hl. auto.
  Qed.

  Lemma gate_valid_shapes_ok g : gate_valid g -> gate_shapes_ok g.
  Proof.
    induction g as [q ax a p|c g IH|m ops]; cbn [gate_valid gate_shapes_ok]; [auto|tauto|tauto].
  Qed.

  Theorem reindexed_matrix_total idx g :
    (forall q, In q (gate_qubits g) -> In q idx) -> gate_valid g ->
    exists M, reindexed_matrix N idx [g] = Ok M /\ wf_mat (2 ^ length idx) M.
  Proof.
    intros Hq Hv. destruct (reindex_gate_total idx g Hq Hv) as [g' [Hg' Hv']].
    destruct (get_matrix_total N (Z.of_nat (length idx)) g') as [G [HG _]].
    - intros q Hin. now apply (reindex_gate_range N idx g g' Hg').
    - now apply gate_valid_shapes_ok.
    - assert (H : reindexed_matrix N idx [g] =
                  Ok (mmul N G (eye N (zpow2 (Z.of_nat (length idx)))))).
      { unfold reindexed_matrix. cbn [reindex_gates]. rewrite Hg'.
        unfold gates_matrix, circuit_matrix. cbn [map circuit_matrix_from]. now rewrite HG. }
      eexists. split; [exact H|]. exact (reindexed_matrix_wf N _ _ _ H).
  Qed.

  (* on valid gates compare_gates always answers (as repaired: no StopIteration) *)
  Theorem compare_gates_total g1 g2 :
    gate_valid g1 -> gate_valid g2 -> exists b, compare_gates N g1 g2 = Ok b.
  Proof.
    intros Hv1 Hv2. destruct (union_order_covers g1 g2) as [Hin _].
    destruct (reindexed_matrix_total (union_order g1 g2) g1) as [A [HA HwA]];
      [intros q Hq; apply Hin; auto|exact Hv1|].
    destruct (reindexed_matrix_total (union_order g1 g2) g2) as [B [HB _]];
      [intros q Hq; apply Hin; auto|exact Hv2|].
    unfold compare_gates, compare_gates_ord. rewrite HA, HB.
    apply (equiv_up_to_phase_total_wf N (2 ^ length (union_order g1 g2))); [|exact HwA].
    apply Nat.neq_0_lt_0, Nat.pow_nonzero. lia.
  Qed.

  (* one concrete expansion used below: a 4x4 matrix gate on operands [0;1] of a
     2-qubit register is the matrix with the two index bits exchanged *)
  Lemma get_matrix_mat2_01
        (a00 a01 a02 a03 a10 a11 a12 a13 a20 a21 a22 a23 a30 a31 a32 a33 : (T * T)%type) :
    get_matrix N 2 (Mat [[a00; a01; a02; a03]; [a10; a11; a12; a13];
                         [a20; a21; a22; a23]; [a30; a31; a32; a33]] [0; 1]%Z)
    = Ok [[a00; a02; a01; a03]; [a20; a22; a21; a23];
          [a10; a12; a11; a13]; [a30; a32; a31; a33]].
  Proof. vm_compute. reflexivity. Qed.
End DispatchT.

(* ---- F17 as repaired: a rotation against a matrix gate, both orders ------- *)

Section SymR.
  Local Open Scope R_scope.

  (* I (x) X: X on qubit 0 of the pair (1, 0) *)
  Definition IX : list (list (R * R)) :=
    [[(0, 0); (1, 0); (0, 0); (0, 0)];
     [(1, 0); (0, 0); (0, 0); (0, 0)];
     [(0, 0); (0, 0); (0, 0); (1, 0)];
     [(0, 0); (0, 0); (1, 0); (0, 0)]].
  (* X (x) I: the same operator after the reindexing by [1; 0] *)
  Definition XI : list (list (R * R)) :=
    [[(0, 0); (0, 0); (1, 0); (0, 0)];
     [(0, 0); (0, 0); (0, 0); (1, 0)];
     [(1, 0); (0, 0); (0, 0); (0, 0)];
     [(0, 0); (1, 0); (0, 0); (0, 0)]].

  Lemma shape_XI : shape 4 4 XI.
  Proof. split; [reflexivity|]. repeat constructor. Qed.

  Lemma reindexed_IX_gate : reindexed_matrix RNum [1; 0]%Z [Mat IX [1; 0]%Z] = Ok XI.
  Proof.
    unfold reindexed_matrix.
    change (reindex_gates RNum [1; 0]%Z [Mat IX [1; 0]%Z])
      with (@Ok (list (gate R)) [Mat IX [0; 1]%Z]).
    cbv iota. cbn [length Z.of_nat Pos.of_succ_nat Pos.succ].
    unfold gates_matrix, circuit_matrix. cbn [map circuit_matrix_from].
    unfold IX. rewrite get_matrix_mat2_01. fold XI.
    change (zpow2 2) with 4%nat. f_equal. apply (mmul_eye_r 4 4); [lia|apply shape_XI].
  Qed.

  Lemma reindexed_X_gate :
    reindexed_matrix RNum [1; 0]%Z [BSR 0 (1, 0, 0) PI (PI / 2)] = Ok XI.
  Proof.
    unfold reindexed_matrix. cbn [reindex_gates reindex_gate zindex Z.eqb option_map].
    unfold mk_bsr_ax. rewrite normalize_PI, normalize_PI2.
    cbn [length Z.of_nat Pos.of_succ_nat Pos.succ]. change (Z.succ 0) with 1%Z.
    unfold gates_matrix, circuit_matrix. cbn [map circuit_matrix_from get_matrix].
    change (Z.geb 1 2) with false. change (Z.ltb 1 0) with false. cbv iota.
    change (zpow2 (2 - 1 - 1)) with 1%nat. change (zpow2 1) with 2%nat. change (zpow2 2) with 4%nat.
    rewrite can1_X.
    assert (Hk : kron RNum (kron RNum (eye RNum 1) [[(0, 0); (1, 0)]; [(1, 0); (0, 0)]])
                      (eye RNum 2) = XI).
    { unfold kron, eye, unit_row, XI. cbn [seq map flat_map Nat.eqb app].
      unfold cmul, c1, c0, n1, n0. rnum_cbn. mat_eq. }
    rewrite Hk. f_equal. apply (mmul_eye_r 4 4); [lia|apply shape_XI].
  Qed.

  (* X on qubit 0 and the matrix gate I (x) X on operands [1; 0] are equal in both
     orders (x == M used to be False while M == x was True) *)
  Theorem gate_eq_X_vs_matrix :
    let x := BSR 0 (1, 0, 0) PI (PI / 2) in
    let M := Mat IX [1; 0]%Z in
    gate_eq RNum x M = Ok true /\ gate_eq RNum M x = Ok true.
  Proof.
    cbv zeta.
    assert (He : equiv_up_to_phase RNum XI XI = Ok true).
    { apply (equiv_refl XI 0 2); [cbn; lia|cbn; lia|cbn; lia|].
      change (mget RNum XI 0 2) with (1, 0). rewrite Cabs_one. unfold ATOL. lra. }
    split; cbn [gate_eq]; unfold compare_gates.
    - change (union_order (BSR 0 (1, 0, 0) PI (PI / 2)) (Mat IX [1; 0]%Z)) with [1; 0]%Z.
      unfold compare_gates_ord. rewrite reindexed_IX_gate, reindexed_X_gate. exact He.
    - change (union_order (Mat IX [1; 0]%Z) (BSR 0 (1, 0, 0) PI (PI / 2))) with [1; 0]%Z.
      unfold compare_gates_ord. rewrite reindexed_IX_gate, reindexed_X_gate. exact He.
  Qed.
End SymR.

(* ================================================================== *)
(* Non-vacuity: the repaired comparison evaluated on concrete matrices  *)

Section ExamplesR.
  Local Open Scope R_scope.

  Definition Xm : list (list (R * R)) := [[(0, 0); (1, 0)]; [(1, 0); (0, 0)]].
  Definition iXm : list (list (R * R)) := [[(0, 0); (0, 1)]; [(0, 1); (0, 0)]].
  Definition I2m : list (list (R * R)) := [[(1, 0); (0, 0)]; [(0, 0); (1, 0)]].
  Definition Zero2 : list (list (R * R)) := [[(0, 0); (0, 0)]; [(0, 0); (0, 0)]].

  Lemma Cabs_zero : Cabs (0, 0) = 0.
  Proof. unfold Cabs. cbn [fst snd]. replace (0 * 0 + 0 * 0) with 0 by ring. apply sqrt_0. Qed.

  Ltac entries2 r c Hr Hc :=
    destruct r as [|[|r]]; [| |cbn in Hr; lia];
    (destruct c as [|[|c]]; [| |cbn in Hc; lia]);
    unfold MatrixP.mget; cbn [nth]; rewrite ?Cabs_zero, ?Cabs_one.

  (* two entries of modulus 1: np.argmax returns the first one, (0,1) *)
  Example argmax_entry_X : argmax_entry RNum Xm = Some (0%nat, 1%nat).
  Proof.
    apply argmax_entry_complete; unfold Xm; cbn [length nth]; try lia.
    - intros r c Hr Hc. entries2 r c Hr Hc; lra.
    - intros r c [Hr|[-> Hc]] Hlen; [lia|]. destruct c as [|c]; [|lia].
      unfold MatrixP.mget; cbn [nth]; rewrite ?Cabs_zero, ?Cabs_one. lra.
  Qed.

  (* X = (-i) * (iX): accepted *)
  Example equiv_X_iX : equiv_up_to_phase RNum Xm iXm = Ok true.
  Proof.
    apply (equiv_up_to_phase_complete_exact Xm iXm (0, -1) 0 1).
    - unfold Cabs. cbn [fst snd]. replace (0 * 0 + -1 * -1) with 1 by ring. apply sqrt_1.
    - unfold Xm, iXm, mat_scale, cmul. cbn [map]. rnum_cbn. mat_eq.
    - cbn. lia.
    - cbn. lia.
    - cbn. lia.
    - change (mget RNum Xm 0 1) with (1, 0). rewrite Cabs_one. unfold ATOL. lra.
  Qed.

  (* X against the identity: the identity vanishes at the reference entry (0,1) *)
  Example equiv_X_I_rejected : equiv_up_to_phase RNum Xm I2m = Ok false.
  Proof.
    apply equiv_up_to_phase_false. exists 0%nat, 1%nat. split; [apply argmax_entry_X|].
    right. left. change (mget RNum I2m 0 1) with (0, 0). rewrite Cabs_zero. apply ATOL_pos.
  Qed.

  (* an all-zero first argument: False (StopIteration used to escape here) *)
  Example equiv_zero_rejected B : equiv_up_to_phase RNum Zero2 B = Ok false.
  Proof.
    apply equiv_up_to_phase_all_small; [cbn; lia|cbn; lia|].
    intros r c Hr Hc. unfold Zero2 in *. entries2 r c Hr Hc; apply ATOL_pos.
  Qed.

  (* np.argmax of an empty matrix: ValueError *)
  Example equiv_empty_error B : equiv_up_to_phase RNum [] B = Err EValue.
  Proof. reflexivity. Qed.

  (* ---- the two tolerances told apart ----------------------------------- *)

  (* the identity with 5e-8 in the (zero) entry (0,1) *)
  Definition I2eps : list (list (R * R)) := [[(1, 0); (5 / 100000000, 0)]; [(0, 0); (1, 0)]].

  Lemma Cabs_real x : 0 <= x -> Cabs (x, 0) = x.
  Proof.
    intros Hx. unfold Cabs. cbn [fst snd]. replace (x * x + 0 * 0) with (x * x) by ring.
    now apply sqrt_square.
  Qed.

  Lemma argmax_entry_I2 : argmax_entry RNum I2m = Some (0%nat, 0%nat).
  Proof.
    apply argmax_entry_complete; unfold I2m; cbn [length nth]; try lia.
    intros r c Hr Hc. entries2 r c Hr Hc; lra.
  Qed.

  Lemma I2eps_scaled :
    mat_scale RNum (cdiv RNum (mat_get RNum I2m (0%nat, 0%nat)) (mat_get RNum I2eps (0%nat, 0%nat))) I2eps
    = I2eps.
  Proof.
    change (mat_get RNum I2m (0%nat, 0%nat)) with (1, 0).
    change (mat_get RNum I2eps (0%nat, 0%nat)) with (1, 0).
    rewrite cdiv_self by (cbn [fst snd]; lra). apply mat_scale_one.
  Qed.

  Lemma I2_I2eps_tests :
    nltb RNum (cabs RNum (mat_get RNum I2m (0%nat, 0%nat))) (atol RNum)
    || nltb RNum (cabs RNum (mat_get RNum I2eps (0%nat, 0%nat))) (atol RNum) = false.
  Proof.
    change (mat_get RNum I2m (0%nat, 0%nat)) with (1, 0).
    change (mat_get RNum I2eps (0%nat, 0%nat)) with (1, 0).
    change (cabs RNum (1, 0)) with (Cabs (1, 0)). rewrite Cabs_one. change (atol RNum) with ATOL.
    cbn [nltb RNum]. replace (Rltb 1 ATOL) with false; [reflexivity|].
    symmetry. apply Rltb_false. unfold ATOL. lra.
  Qed.

  (* the difference at (0,1) is 5e-8, against a right-hand side entry of modulus 5e-8 *)
  Lemma I2_I2eps_entry :
    Cabs (csub RNum (mget RNum I2m 0 1) (mget RNum I2eps 0 1)) = 5 / 100000000 /\
    Cabs (mget RNum I2eps 0 1) = 5 / 100000000.
  Proof.
    change (mget RNum I2m 0 1) with (0, 0). change (mget RNum I2eps 0 1) with (5 / 100000000, 0).
    split; [|apply Cabs_real; lra].
    unfold Cabs, csub. rnum_cbn.
    replace ((0 - 5 / 100000000) * (0 - 5 / 100000000) + (0 - 0) * (0 - 0))
      with ((5 / 100000000) * (5 / 100000000)) by field.
    apply sqrt_square. lra.
  Qed.

  (* np.allclose(..., atol=ATOL): 5e-8 <= 1e-7 + 1e-5 * 5e-8, accepted *)
  Example equiv_I_I2eps_accepted : equiv_up_to_phase RNum I2m I2eps = Ok true.
  Proof.
    unfold equiv_up_to_phase. rewrite argmax_entry_I2, I2_I2eps_tests, I2eps_scaled. f_equal.
    apply mat_allclose_tol_complete; [reflexivity|intros [|[|r]] Hr; cbn in *; [reflexivity|reflexivity|lia]|].
    change (atol RNum) with ATOL. unfold ATOL.
    intros r c Hr Hc. destruct r as [|[|r]]; [| |cbn in Hr; lia];
      (destruct c as [|[|c]]; [| |cbn in Hc; lia]).
    - change (mget RNum I2m 0 0) with (1, 0). change (mget RNum I2eps 0 0) with (1, 0).
      rewrite Cabs_sub_self, Cabs_one. lra.
    - destruct I2_I2eps_entry as [-> ->]. lra.
    - change (mget RNum I2m 1 0) with (0, 0). change (mget RNum I2eps 1 0) with (0, 0).
      rewrite Cabs_sub_self, Cabs_zero. lra.
    - change (mget RNum I2m 1 1) with (1, 0). change (mget RNum I2eps 1 1) with (1, 0).
      rewrite Cabs_sub_self, Cabs_one. lra.
  Qed.

  (* plain np.allclose (atol = 1e-8): 5e-8 > 1e-8 + 1e-5 * 5e-8, it was rejected *)
  Example equiv_I_I2eps_rejected_atol8 :
    equiv_up_to_phase_with RNum (atol8 RNum) I2m I2eps = Ok false.
  Proof.
    unfold equiv_up_to_phase_with. rewrite argmax_entry_I2, I2_I2eps_tests, I2eps_scaled. f_equal.
    apply not_true_is_false. intros H. apply mat_allclose_tol_sound in H.
    destruct H as [_ [_ H]]. specialize (H 0%nat 1%nat ltac:(cbn; lia) ltac:(cbn; lia)).
    destruct I2_I2eps_entry as [E1 E2]. rewrite E1, E2 in H.
    unfold atol8 in H. revert H. rnum_cbn. lra.
  Qed.

  Example allclose_I_I2eps_rejected : mat_allclose RNum I2m I2eps = false.
  Proof.
    apply not_true_is_false. intros H. apply mat_allclose_sound in H.
    destruct H as [_ [_ H]]. specialize (H 0%nat 1%nat ltac:(cbn; lia) ltac:(cbn; lia)).
    destruct I2_I2eps_entry as [E1 E2]. rewrite E1, E2 in H. lra.
  Qed.
End ExamplesR.

(* the same definitions run by the kernel on a decidable dictionary: fixed-point
   numbers with 8 decimals on Z (entries are written multiplied by 10^8) *)
Section ExamplesFix.
  Local Open Scope Z_scope.
  Definition FS : Z := 100000000.
  Definition FixNum : Num Z := {|
    nofZ := fun z => z * FS; nadd := Z.add; nsub := Z.sub; nmul := fun x y => x * y / FS;
    ndiv := fun x y => x * FS / y; nneg := Z.opp; nabs := Z.abs;
    nsqrt := fun x => Z.sqrt (x * FS); nsin := fun _ => 0; ncos := fun _ => 0;
    ntan := fun _ => 0; nacos := fun _ => 0; natan2 := fun _ _ => 0; npi := 314159265;
    nfloordiv := Z.div; nmod := Z.modulo; nltb := Z.ltb; nleb := Z.leb; neqb := Z.eqb;
    ncopysign := fun x _ => x; nround := fun _ x => x; nroundpy := fun _ x => x;
    nisfinite := fun _ => true; ndegrees := fun x => x |}.
  Definition fx (m : list (list (Z * Z))) : list (list (Z * Z)) :=
    map (map (fun z => (fst z * FS, snd z * FS))) m.

  Definition FM1 := fx [[(1, 0); (3, 0)]; [(0, 3); (2, 0)]].
  Definition FM1i := fx [[(0, -1); (0, -3)]; [(3, 0); (0, -2)]].      (* -i * FM1 *)
  Definition FX := fx [[(0, 0); (1, 0)]; [(1, 0); (0, 0)]].
  Definition FiX := fx [[(0, 0); (0, 1)]; [(0, 1); (0, 0)]].
  Definition FI := fx [[(1, 0); (0, 0)]; [(0, 0); (1, 0)]].
  (* 5e-8 (below ATOL = 1e-7) in the corner *)
  Definition Ftiny : list (list (Z * Z)) := [[(5, 0); (0, 0)]; [(0, 0); (0, 0)]].

  Example fix_atol : atol FixNum = 10.
  Proof. vm_compute. reflexivity. Qed.
  (* |3| at (0,1) and at (1,0): the first one *)
  Example fix_argmax_first_of_ties : argmax_entry FixNum FM1 = Some (0%nat, 1%nat).
  Proof. vm_compute. reflexivity. Qed.
  Example fix_argmax_X : argmax_entry FixNum FX = Some (0%nat, 1%nat).
  Proof. vm_compute. reflexivity. Qed.
  Example fix_equiv_phase : equiv_up_to_phase FixNum FM1 FM1i = Ok true.
  Proof. vm_compute. reflexivity. Qed.
  Example fix_equiv_X_iX : equiv_up_to_phase FixNum FX FiX = Ok true.
  Proof. vm_compute. reflexivity. Qed.
  Example fix_equiv_X_I : equiv_up_to_phase FixNum FX FI = Ok false.
  Proof. vm_compute. reflexivity. Qed.
  Example fix_equiv_zero : equiv_up_to_phase FixNum (fx [[(0, 0); (0, 0)]; [(0, 0); (0, 0)]]) FM1 = Ok false.
  Proof. vm_compute. reflexivity. Qed.
  Example fix_equiv_tiny : equiv_up_to_phase FixNum Ftiny FM1 = Ok false.
  Proof. vm_compute. reflexivity. Qed.
  Example fix_equiv_empty : equiv_up_to_phase FixNum [] FM1 = Err EValue.
  Proof. vm_compute. reflexivity. Qed.
  (* the final comparison is np.allclose(..., atol=ATOL): 10 units of 1e-8 *)
  Example fix_allclose_is_tol_atol8 :
    mat_allclose_tol FixNum (atol8 FixNum) FM1 FM1i = mat_allclose FixNum FM1 FM1i.
  Proof. reflexivity. Qed.
  Example fix_atol8 : atol8 FixNum = 1.
  Proof. vm_compute. reflexivity. Qed.

  (* 8 decimals cannot square 5e-8; the two tolerances are told apart on the same
     dictionary with 16 decimals (entries are written multiplied by 10^16) *)
  Definition FS16 : Z := 10000000000000000.
  Definition FixNum16 : Num Z := {|
    nofZ := fun z => z * FS16; nadd := Z.add; nsub := Z.sub; nmul := fun x y => x * y / FS16;
    ndiv := fun x y => x * FS16 / y; nneg := Z.opp; nabs := Z.abs;
    nsqrt := fun x => Z.sqrt (x * FS16); nsin := fun _ => 0; ncos := fun _ => 0;
    ntan := fun _ => 0; nacos := fun _ => 0; natan2 := fun _ _ => 0; npi := 31415926535897932;
    nfloordiv := Z.div; nmod := Z.modulo; nltb := Z.ltb; nleb := Z.leb; neqb := Z.eqb;
    ncopysign := fun x _ => x; nround := fun _ x => x; nroundpy := fun _ x => x;
    nisfinite := fun _ => true; ndegrees := fun x => x |}.
  (* the identity, and the identity with 5e-8 in the zero entry (0,1) *)
  Definition GI : list (list (Z * Z)) := [[(FS16, 0); (0, 0)]; [(0, 0); (FS16, 0)]].
  Definition GIeps : list (list (Z * Z)) := [[(FS16, 0); (500000000, 0)]; [(0, 0); (FS16, 0)]].

  Example fix16_tolerances : (atol FixNum16, atol8 FixNum16, rtol FixNum16) = (1000000000, 100000000, 100000000000).
  Proof. vm_compute. reflexivity. Qed.
  Example fix16_diff : cabs FixNum16 (csub FixNum16 (0, 0) (500000000, 0)) = 500000000.
  Proof. vm_compute. reflexivity. Qed.
  (* accepted by np.allclose(..., atol=ATOL), in either order *)
  Example fix16_equiv_eps : equiv_up_to_phase FixNum16 GI GIeps = Ok true.
  Proof. vm_compute. reflexivity. Qed.
  Example fix16_equiv_eps' : equiv_up_to_phase FixNum16 GIeps GI = Ok true.
  Proof. vm_compute. reflexivity. Qed.
  (* rejected when the final comparison is plain np.allclose (atol = 1e-8) *)
  Example fix16_equiv_eps_atol8 : equiv_up_to_phase_with FixNum16 (atol8 FixNum16) GI GIeps = Ok false.
  Proof. vm_compute. reflexivity. Qed.
  Example fix16_equiv_eps_atol8' : equiv_up_to_phase_with FixNum16 (atol8 FixNum16) GIeps GI = Ok false.
  Proof. vm_compute. reflexivity. Qed.
  Example fix16_allclose_eps : mat_allclose FixNum16 GI GIeps = false.
  Proof. vm_compute. reflexivity. Qed.
End ExamplesFix.

(* ================================================================== *)
Print Assumptions mat_allclose_iff.
Print Assumptions argmax_entry_in_range.
Print Assumptions argmax_entry_spec.
Print Assumptions argmax_entry_complete.
Print Assumptions equiv_up_to_phase_well_conditioned.
Print Assumptions equiv_up_to_phase_reference_above_atol.
Print Assumptions equiv_up_to_phase_all_small.
Print Assumptions equiv_up_to_phase_err_iff.
Print Assumptions check_replacement_spec.
Print Assumptions check_rejects_foreign_qubit.
Print Assumptions check_replacement_error_kinds.
Print Assumptions reindexed_matrix_nil.
Print Assumptions reindexed_matrix_total.
Print Assumptions gate_eq_dispatch.
Print Assumptions union_order_covers.
Print Assumptions compare_gates_total.
Print Assumptions mat_allclose_sound.
Print Assumptions mat_allclose_tol_iff.
Print Assumptions mat_allclose_tol_sound.
Print Assumptions mat_allclose_tol_complete.
Print Assumptions equiv_up_to_phase_sound.
Print Assumptions equiv_up_to_phase_complete_exact.
Print Assumptions check_accepts_empty_for_zero_rotation.
Print Assumptions check_sound.
Print Assumptions bsr_eq_iff.
Print Assumptions bsr_eq_half_turn_negated.
Print Assumptions bsr_eq_old_spec_refuted.
Print Assumptions gate_eq_X_vs_matrix.
