(* SemV1P.v — property C12, the last sentence: "Reading the lines back with the
   cQASM 1 meaning of each name gives the circuit's operation".

     circuit --export_v1--> text --read1--> lines --v1_meaning--> circuit'

   [read1] (Model/Reader.v, Proofs/ReaderP.v) gives the lines; this file gives
   the lines a MEANING and proves that circuit' is the circuit.

   The cQASM 1 meaning of a line ([v1_meaning]):
     name q[i], q[j], p1, ...   the default-table gate whose LOWER-CASED name is
                                [name] ([v1_table_name]: the lower-casing is
                                injective on the default gate names,
                                [default_names_lower_injective], and no
                                lower-cased default name is "measure_z" or
                                "prep_z"), called on the qubit operands followed
                                by the parameters (the argument order of
                                [default_gate]: qubits first, then Float / Int;
                                it IS the order the exporter writes them in);
                                a real parameter is [of_lit] of its text
     measure_z q[i]             the default z-measurement of qubit i INTO BIT i
     prep_z q[i]                reset of qubit i
     /* text */                 nothing
     anything else              refused

   The bit target.  cQASM 1 "measure_z q[i]" has no bit operand: in cQASM 1.0
   every qubit has its own classical bit and the outcome goes to b[i].  The
   exporter drops the bit target of a measurement, so two circuits that differ
   only there have the same text ([v1_loses_bit_targets]) and the statements can
   be recovered only MODULO the bit targets: [v1_retarget] sends every
   measurement to the bit of its own qubit (and spells it "measure_z"), and
   the theorem is   circuit' = map v1_retarget (circuit rebuilt from the rounded
   parameters), statement by statement, object identities 1, 2, 3, ...

   The operation.  The Kraus operators do not look at the bit targets, so for
   every assignment of outcomes the text means the Kraus operator of the
   (rounded) circuit - EQUAL, not only up to a phase ([v1_read_back_kraus]).
   [same_operation] also compares the record of the effects, which contains the
   bit targets: it holds when every measurement already writes to the bit of
   its qubit ([bits_follow_qubits]); without that hypothesis it is false
   ([v1_same_operation_bits_refuted]) and what holds is: the same operation as
   the retargeted circuit ([v1_read_back_same_operation_rounded]).

   Everything is proved for ANY T and ANY N : Num T, except part 6 (the
   operation, over R).  Hypotheses, all taken from ReaderP / RoundTripP:
     - [exportable dec8 ir] (ReaderP.stmt_ok1: names are identifiers, indices
       natural numbers, reals well-formed finite decimals, no bit argument in a
       gate, at least one qubit operand, comments without the terminator "*/" (newlines allowed));
     - [Forall (rt_coherent N) ir] (RoundTripP): every statement is what the
       default instruction set builds from its name and captured arguments.
   [of_lit : string -> T] (the conversion of the text of a real parameter, in
   Python's rendering, to a number) is a Section variable, not an axiom. *)
From Coq Require Import ZArith List Bool String Ascii Lia.
Import ListNotations.
From OSQ Require Import Num IR Construct Dec Writer DefaultTable ParserExpand Reader Lexer.
From OSQ Require Import DecP WriterP ReaderP ParserP RemapP PassesP RoundTripP.
Local Open Scope string_scope.

(* ------------------------------------------------------------------ *)
(** * 0. The names                                                      *)
(* ------------------------------------------------------------------ *)

(* the default gate whose lower-cased name is [lname] *)
Definition v1_table_name (lname : string) : option string :=
  find (fun n => String.eqb (lower n) lname) hand_gate_set.

Lemma default_names_lower_check :
  forallb (fun a => forallb (fun b => implb (String.eqb (lower a) (lower b)) (String.eqb a b))
                            hand_gate_set) hand_gate_set = true.
Proof. vm_compute. reflexivity. Qed.

(* two default gate names with the same lower-case form are the same name *)
Theorem default_names_lower_injective (a b : string) :
  In a hand_gate_set -> In b hand_gate_set -> lower a = lower b -> a = b.
Proof.
  intros Ha Hb E. pose proof default_names_lower_check as H.
  rewrite forallb_forall in H. specialize (H a Ha). rewrite forallb_forall in H. specialize (H b Hb).
  rewrite E, String.eqb_refl in H. cbn [implb] in H. now apply String.eqb_eq.
Qed.

Lemma default_names_v1_check :
  forallb (fun n => match v1_table_name (lower n) with Some n' => String.eqb n' n | None => false end
                    && negb (String.eqb (lower n) "measure_z") && negb (String.eqb (lower n) "prep_z"))
          hand_gate_set = true.
Proof. vm_compute. reflexivity. Qed.

Lemma mem_str_In (n : string) (l : list string) : mem_str n l = true -> In n l.
Proof.
  unfold mem_str. intros H. apply existsb_exists in H. destruct H as (x & Hx & E).
  apply String.eqb_eq in E. now subst x.
Qed.

(* a default gate name is found again from its lower-cased form, which is
   neither "measure_z" nor "prep_z" *)
Lemma v1_table_name_lower (n : string) : mem_str n hand_gate_set = true ->
  v1_table_name (lower n) = Some n /\
  String.eqb (lower n) "measure_z" = false /\ String.eqb (lower n) "prep_z" = false.
Proof.
  intros Hm. apply mem_str_In in Hm. pose proof default_names_v1_check as H.
  rewrite forallb_forall in H. specialize (H n Hm).
  rewrite !andb_true_iff, !negb_true_iff in H. destruct H as [[H1 H2] H3].
  destruct (v1_table_name (lower n)) as [n'|]; [|discriminate]. apply String.eqb_eq in H1. now subst n'.
Qed.

(* conversely, what [v1_table_name] finds is a default gate name with that lower-case form *)
Lemma v1_table_name_sound (l n : string) : v1_table_name l = Some n -> In n hand_gate_set /\ lower n = l.
Proof.
  unfold v1_table_name. intros H. apply find_some in H. destruct H as [Hi E].
  split; [exact Hi|now apply String.eqb_eq].
Qed.

(* ------------------------------------------------------------------ *)
(** * 1. A default gate accepts its arguments whatever the reals are    *)
(* ------------------------------------------------------------------ *)
(* (RoundTripP proves this for the rounding [of_lit (v3_float dec8 x)]; here
   for any function of the real arguments) *)

Section MapReals.
  Context {T : Type} (N : Num T).
  Variable f : T -> T.
  Notation arg := (arg T).

  Definition map_real_arg (a : arg) : arg := match a with AF x => AF (f x) | _ => a end.

  Lemma args_match_map_reals ps : forall args : list arg,
    args_match ps (map map_real_arg args) = args_match ps args.
  Proof.
    induction ps as [|[nm k] r IH]; intros [|a args]; cbn [map args_match]; try reflexivity.
    destruct k, a; cbn [map_real_arg]; auto.
  Qed.

  Lemma arg_qubits_map_reals (args : list arg) : arg_qubits (map map_real_arg args) = arg_qubits args.
  Proof.
    unfold arg_qubits. induction args as [|a l IH]; [reflexivity|].
    cbn [map flat_map]. rewrite IH. destruct a; reflexivity.
  Qed.

  Lemma eval_entry_map_reals fuel tbl e (args : list arg) g :
    eval_entry N fuel tbl e args = Ok g ->
    exists g', eval_entry N fuel tbl e (map map_real_arg args) = Ok g' /\ gate_qubits g' = gate_qubits g.
  Proof.
    intros H.
    destruct fuel as [|fuel]; cbn [eval_entry] in H |- *;
      rewrite args_match_map_reals, arg_qubits_map_reals;
      (destruct (negb (args_match (e_params e) args)); [discriminate|]);
      destruct (e_def e) as [|d|callee|loc d]; destruct (arg_qubits args) as [|c [|t rest]];
      try discriminate;
      try (eexists; split; [reflexivity|]; inversion H; subst; reflexivity);
      try (eexists; split; [exact H|reflexivity]).
    all: unfold mk_ctrl in *; unfold eval_bsrdef, mk_bsr in *; cbn [gate_qubits] in *;
      destruct (znodup [c; t]); [|discriminate]; inversion H; subst;
      eexists; split; reflexivity.
  Qed.

  Lemma default_gate_map_reals n (args : list arg) g gi :
    default_gate N n args = Ok (g, gi) ->
    exists g', default_gate N n (map map_real_arg args)
               = Ok (g', mkGinfo (Some n) (Some (map map_real_arg args))) /\
               gate_qubits g' = gate_qubits g.
  Proof.
    intros H. unfold default_gate in *.
    destruct (find_entry n hand_table) as [e|] eqn:Ef; [|discriminate].
    destruct (find_entry_In' _ _ _ Ef) as [_ Hn].
    destruct (eval_entry N 2 hand_table e args) as [g0|] eqn:Ee; [|discriminate].
    destruct (eval_entry_map_reals _ _ _ _ _ Ee) as (g' & -> & Hq).
    inversion H; subst. exists g'. split; [reflexivity|exact Hq].
  Qed.
End MapReals.

(* ------------------------------------------------------------------ *)
(** * 2. The meaning of a cQASM 1 line                                  *)
(* ------------------------------------------------------------------ *)

Section SemV1.
  Context {T : Type} (N : Num T).
  Variable dec8 : T -> dec.
  Variable of_lit : string -> T.

  Notation stmt := (stmt T).
  Notation arg := (arg T).

  (** ** 2.1 From the text *)

  (* an argument of a line as an argument of a default gate *)
  Definition arg_of_rarg (a : rarg) : arg :=
    match a with
    | RQ q => AQ q
    | RB b => AB b
    | RNumLit l => AF (of_lit l)
    | RInt k => AI k
    end.

  (* the z axis of the default measurement, as the parser builds it *)
  Definition v1_zaxis : axis3 T := Construct.mk_axis N (nofZ N 0, nofZ N 0, nofZ N 1).

  (* cQASM 1: the outcome of "measure_z q[i]" goes to the bit of qubit i *)
  Definition v1_measure (o : positive) (q : Z) : stmt :=
    SMeasure o q q v1_zaxis (mkGinfo (Some "measure_z") (Some [AQ q; AB q])).
  Definition v1_reset (o : positive) (q : Z) : stmt :=
    SReset o q (mkGinfo (Some "reset") (Some [AQ q])).

  (* THE MEANING OF A LINE: Ok None = nothing (a comment), Err = no meaning *)
  Definition v1_meaning (l : rline) (o : positive) : result (option stmt) :=
    match l with
    | RComment _ => Ok None
    | RRaw _ => Err EParse
    | RAssign _ _ _ => Err EParse
    | RGate lname params qubits =>
        if String.eqb lname "measure_z" then
          match params, qubits with
          | [], [q] => Ok (Some (v1_measure o q))
          | _, _ => Err EType
          end
        else if String.eqb lname "prep_z" then
          match params, qubits with
          | [], [q] => Ok (Some (v1_reset o q))
          | _, _ => Err EType
          end
        else
          match v1_table_name lname with
          | None => Err EValue
          | Some n =>
              match default_gate N n (map (@AQ T) qubits ++ map arg_of_rarg params)%list with
              | Ok (g, gi) => Ok (Some (SGate o g gi))
              | Err e => Err e
              end
          end
    end.

  (* the lines in order; object identities o, o+1, ... as the parser numbers them *)
  Fixpoint v1_meanings (ls : list rline) (o : positive) : result (list stmt) :=
    match ls with
    | [] => Ok []
    | l :: r =>
        match v1_meaning l o with
        | Err e => Err e
        | Ok None => v1_meanings r o
        | Ok (Some s) =>
            match v1_meanings r (Pos.succ o) with
            | Err e => Err e
            | Ok ss => Ok (s :: ss)
            end
        end
    end.

  (* the circuit a cQASM 1 text means: register size and statements *)
  Definition v1_parse (text : string) : result (Z * list stmt) :=
    match read1 text with
    | None => Err EParse
    | Some (nq, ls) =>
        match v1_meanings ls 1%positive with
        | Ok ir => Ok (nq, ir)
        | Err e => Err e
        end
    end.

  (** ** 2.2 What the circuit becomes *)

  (* x as the text carries it: 8 significant digits in Python's rendering, converted back *)
  Definition round_real1 (x : T) : T := of_lit (v1_float dec8 x).
  Definition round_arg1 : arg -> arg := map_real_arg round_real1.

  (* the gate rebuilt by the default table from the rounded arguments *)
  Definition rebuild1 (s : stmt) : stmt :=
    match s with
    | SGate o g gi =>
        match gname gi, gargs gi with
        | Some n, Some args =>
            match default_gate N n (map round_arg1 args) with
            | Ok (g', gi') => SGate o g' gi'
            | Err _ => s
            end
        | _, _ => s
        end
    | _ => s
    end.

  (* what the text cannot carry: the bit target of a measurement (and whether
     the default z-measurement was spelled "measure" or "measure_z").  Every
     measurement is sent to the bit of its own qubit; nothing else changes. *)
  Definition v1_retarget (s : stmt) : stmt :=
    match s with
    | SMeasure o q _ ax _ => SMeasure o q q ax (mkGinfo (Some "measure_z") (Some [AQ q; AB q]))
    | _ => s
    end.

  (* two circuits are the same modulo object identities and modulo the bit
     targets of their measurements *)
  Definition same_modulo_oid_bits (a b : list stmt) : Prop :=
    same_modulo_oid (map v1_retarget a) (map v1_retarget b).

  Lemma v1_retarget_idem (s : stmt) : v1_retarget (v1_retarget s) = v1_retarget s.
  Proof. destruct s; reflexivity. Qed.

  Lemma round_arg1_spec (a : arg) :
    match a with
    | AF x => round_arg1 a = AF (of_lit (v1_float dec8 x))
    | _ => round_arg1 a = a
    end.
  Proof. destruct a; reflexivity. Qed.

  Lemma arg_of_rarg1_of (a : arg) : arg_of_rarg (rarg1_of dec8 a) = round_arg1 a.
  Proof. destruct a; reflexivity. Qed.

  Lemma round_arg1_AQ (qs : list Z) : map round_arg1 (map (@AQ T) qs) = map (@AQ T) qs.
  Proof. rewrite map_map. reflexivity. Qed.

  Lemma rebuild1_gate o g gi n (args : list arg) :
    gname gi = Some n -> gargs gi = Some args -> default_gate N n args = Ok (g, gi) ->
    exists g', default_gate N n (map round_arg1 args) = Ok (g', mkGinfo (Some n) (Some (map round_arg1 args))) /\
               gate_qubits g' = gate_qubits g /\
               rebuild1 (SGate o g gi) = SGate o g' (mkGinfo (Some n) (Some (map round_arg1 args))).
  Proof.
    intros Hn Ha H. destruct (default_gate_map_reals N round_real1 _ _ _ _ H) as (g' & E & Hq).
    fold round_arg1 in E.
    exists g'. split; [exact E|]. split; [exact Hq|]. cbn [rebuild1]. now rewrite Hn, Ha, E.
  Qed.

  Lemma is_comment_rebuild1 (s : stmt) : is_comment (rebuild1 s) = is_comment s.
  Proof.
    destruct s; try reflexivity. cbn [rebuild1].
    repeat (match goal with |- context [match ?x with _ => _ end] => destruct x end); reflexivity.
  Qed.

  Lemma rebuild1_is_gate o g gi : exists g' gi', rebuild1 (SGate o g gi) = SGate o g' gi'.
  Proof.
    cbn [rebuild1]. destruct (gname gi) as [n|]; [|eexists; eexists; reflexivity].
    destruct (gargs gi) as [args|]; [|eexists; eexists; reflexivity].
    destruct (default_gate N n (map round_arg1 args)) as [[g' gi']|]; eexists; eexists; reflexivity.
  Qed.

  Lemma is_comment_retarget (s : stmt) : is_comment (v1_retarget s) = is_comment s.
  Proof. destruct s; reflexivity. Qed.

  Lemma strip_comments_map (h : stmt -> stmt) (ir : list stmt) :
    (forall s, is_comment (h s) = is_comment s) ->
    strip_comments (map h ir) = map h (strip_comments ir).
  Proof.
    intros Hh. unfold strip_comments. induction ir as [|s r IH]; [reflexivity|].
    cbn [map filter]. rewrite IH, Hh. destruct (is_comment s); reflexivity.
  Qed.

  (* ------------------------------------------------------------------ *)
  (** * 3. One line                                                       *)
  (* ------------------------------------------------------------------ *)

  Lemma v1_meaning_measure (q : Z) (o : positive) :
    v1_meaning (RGate "measure_z" [] [q]) o = Ok (Some (v1_measure o q)).
  Proof. reflexivity. Qed.

  Lemma v1_meaning_reset (q : Z) (o : positive) :
    v1_meaning (RGate "prep_z" [] [q]) o = Ok (Some (v1_reset o q)).
  Proof. reflexivity. Qed.

  (* a gate line: the lower-cased name of a default gate, its qubits, its literals *)
  Lemma v1_meaning_gate (n : string) (args : list arg) g gi (o : positive) :
    default_gate N n args = Ok (g, gi) ->
    exists g', default_gate N n (map round_arg1 args) = Ok (g', mkGinfo (Some n) (Some (map round_arg1 args))) /\
      v1_meaning (RGate (lower n) (map (rarg1_of dec8) (params_of args)) (qubit_ids args)) o
      = Ok (Some (SGate o g' (mkGinfo (Some n) (Some (map round_arg1 args))))).
  Proof.
    intros Hd.
    destruct (default_gate_args_shape _ _ _ _ _ Hd) as (Hsh & _ & Hm & _).
    destruct (v1_table_name_lower n Hm) as (E1 & E2 & E3).
    destruct (default_gate_map_reals N round_real1 _ _ _ _ Hd) as (g' & Hd' & _). fold round_arg1 in Hd'.
    exists g'. split; [exact Hd'|].
    cbn [v1_meaning]. rewrite E2, E3, E1.
    assert (EA : (map (@AQ T) (qubit_ids args) ++ map arg_of_rarg (map (rarg1_of dec8) (params_of args)))%list
                 = map round_arg1 args).
    { rewrite Hsh at 3. rewrite map_app, round_arg1_AQ, map_map. f_equal.
      apply map_ext. intros a. apply arg_of_rarg1_of. }
    rewrite EA, Hd'. reflexivity.
  Qed.

  (* THE PER-STATEMENT LEMMA: a comment means nothing; any other statement is
     written as a line that means the rebuilt statement, its measurement sent to
     the bit of its own qubit *)
  Lemma v1_line_meaning (s : stmt) : stmt_ok1 dec8 s -> rt_coherent N s ->
    forall o, v1_meaning (line_of1 dec8 s) o
              = Ok (if is_comment s then None else Some (set_oid o (v1_retarget (rebuild1 s)))).
  Proof.
    intros Hok Hco o'.
    destruct s as [o g gi|o q b ax gi|o q gi|t]; cbn [is_comment]; [| | |reflexivity].
    - destruct Hok as (n & args & Hgn & Hga & _).
      destruct Hco as (n' & args' & Hgn' & Hga' & Hd).
      assert (n' = n) by congruence. assert (args' = args) by congruence. subst n' args'.
      destruct (v1_meaning_gate n args g gi o' Hd) as (g' & Hd' & Hm).
      cbn [line_of1]. rewrite Hga. unfold name_of. rewrite Hgn, Hm.
      cbn [rebuild1]. rewrite Hgn, Hga, Hd'. reflexivity.
    - destruct Hok as (q' & rest & Hga & _).
      destruct Hco as (n & _ & -> & ->). cbn [gargs] in Hga. inversion Hga; subst.
      cbn [line_of1 gargs]. rewrite v1_meaning_measure. reflexivity.
    - destruct Hok as (q' & rest & Hga & _).
      cbn [rt_coherent] in Hco. subst gi. cbn [gargs] in Hga. inversion Hga; subst.
      cbn [line_of1 gargs]. rewrite v1_meaning_reset. reflexivity.
  Qed.

  (* ------------------------------------------------------------------ *)
  (** * 4. The whole text                                                 *)
  (* ------------------------------------------------------------------ *)

  Lemma v1_lines_meaning (ir : list stmt) : exportable dec8 ir -> Forall (rt_coherent N) ir ->
    forall o, v1_meanings (map (line_of1 dec8) ir) o
              = Ok (renumber o (map v1_retarget (map rebuild1 (strip_comments ir)))).
  Proof.
    unfold exportable. intros Hok Hco. induction Hok as [|s r Hs _ IH]; intros o; [reflexivity|].
    inversion Hco as [|? ? Hcs Hcr]; subst.
    cbn [map v1_meanings]. rewrite (v1_line_meaning s Hs Hcs o).
    unfold strip_comments in *. cbn [filter]. destruct (is_comment s); cbn [negb].
    - apply IH, Hcr.
    - cbn [map renumber]. now rewrite (IH Hcr).
  Qed.

  (** THE STATEMENTS READ BACK.  The text exported for an exportable, coherent
      circuit is read by [read1] to the declared number of qubits and to lines
      whose cQASM 1 meanings are, in order: the statements of the circuit
      without its comments, every real argument replaced by [of_lit] of its
      8-digit text, every gate rebuilt by the default table from those
      arguments, every measurement sent to the bit of its own qubit, numbered
      1, 2, 3, ... *)
  Theorem v1_read_back_statements (nq : Z) (ir : list stmt) (text : string) (nq' : Z) (lines : list rline) :
    export_v1 dec8 nq ir = Ok text ->
    (0 <= nq)%Z -> exportable dec8 ir -> Forall (rt_coherent N) ir ->
    read1 text = Some (nq', lines) ->
    nq' = nq /\
    v1_meanings lines 1%positive
    = Ok (renumber 1%positive (map v1_retarget (map rebuild1 (strip_comments ir)))).
  Proof.
    intros Hw Hq Hok Hco Hr.
    rewrite (read1_export_v1 dec8 nq ir text Hw Hq Hok) in Hr. inversion Hr; subst.
    split; [reflexivity|]. now apply v1_lines_meaning.
  Qed.

  (* the same with the reader inside: the exported text has a meaning, and it is that circuit *)
  Theorem v1_parse_export (nq : Z) (ir : list stmt) (text : string) :
    export_v1 dec8 nq ir = Ok text ->
    (0 <= nq)%Z -> exportable dec8 ir -> Forall (rt_coherent N) ir ->
    v1_parse text = Ok (nq, renumber 1%positive (map v1_retarget (map rebuild1 (strip_comments ir)))).
  Proof.
    intros Hw Hq Hok Hco. unfold v1_parse.
    rewrite (read1_export_v1 dec8 nq ir text Hw Hq Hok), (v1_lines_meaning ir Hok Hco). reflexivity.
  Qed.

  (* modulo object identities and modulo the bit targets of the measurements:
     the circuit rebuilt from the rounded parameters, without its comments *)
  Corollary v1_read_back_modulo (nq : Z) (ir : list stmt) (text : string) :
    export_v1 dec8 nq ir = Ok text ->
    (0 <= nq)%Z -> exportable dec8 ir -> Forall (rt_coherent N) ir ->
    exists ir', v1_parse text = Ok (nq, ir') /\
      same_modulo_oid_bits ir' (map rebuild1 (strip_comments ir)) /\
      map v1_retarget ir' = ir'.
  Proof.
    intros Hw Hq Hok Hco. eexists. split; [exact (v1_parse_export nq ir text Hw Hq Hok Hco)|].
    assert (E : forall o (l0 : list stmt), map v1_retarget (renumber o (map v1_retarget l0)) = renumber o (map v1_retarget l0)).
    { intros o l0. revert o. induction l0 as [|s r IH]; intros o; [reflexivity|].
      cbn [map renumber]. rewrite IH. f_equal. destruct s; reflexivity. }
    unfold same_modulo_oid_bits. rewrite E. split; [apply forget_renumber|reflexivity].
  Qed.

  (** ** 4.1 Exact parameters *)

  (* every real argument is its own 8-digit text read back *)
  Definition exact_params1 (ir : list stmt) : Prop :=
    Forall (fun s => Forall (fun x => of_lit (v1_float dec8 x) = x) (stmt_reals s)) ir.

  Lemma round_args1_exact (args : list arg) :
    Forall (fun x => of_lit (v1_float dec8 x) = x)
           (flat_map (fun a => match a with AF x => [x] | _ => [] end) args) ->
    map round_arg1 args = args.
  Proof.
    induction args as [|a l IH]; intros H; [reflexivity|]. cbn [flat_map] in H.
    apply Forall_app in H. destruct H as [H1 H2]. cbn [map]. rewrite (IH H2). f_equal.
    destruct a; try reflexivity. inversion H1; subst.
    unfold round_arg1. cbn [map_real_arg]. unfold round_real1. congruence.
  Qed.

  Lemma rebuild1_exact (s : stmt) :
    rt_coherent N s -> Forall (fun x => of_lit (v1_float dec8 x) = x) (stmt_reals s) -> rebuild1 s = s.
  Proof.
    destruct s as [o g gi|o q b ax gi|o q gi|t]; try reflexivity.
    intros (n & args & Hgn & Hga & Hd) Hx. cbn [stmt_reals] in Hx. rewrite Hga in Hx.
    cbn [rebuild1]. now rewrite Hgn, Hga, (round_args1_exact args Hx), Hd.
  Qed.

  Lemma rebuild1_all_exact (ir : list stmt) :
    Forall (rt_coherent N) ir -> exact_params1 ir -> map rebuild1 ir = ir.
  Proof.
    unfold exact_params1. intros Hco Hx. rewrite <- (map_id ir) at 2.
    apply map_ext_in. intros s Hs. rewrite Forall_forall in Hco, Hx. now apply rebuild1_exact; auto.
  Qed.

  (* measurements already write to the bit of their qubit, under the cQASM 1 spelling *)
  Definition v1_native (s : stmt) : Prop :=
    match s with
    | SMeasure _ q b _ gi => b = q /\ gi = mkGinfo (Some "measure_z") (Some [AQ q; AB q])
    | _ => True
    end.

  Lemma retarget_native (ir : list stmt) : Forall v1_native ir -> map v1_retarget ir = ir.
  Proof.
    intros H. rewrite <- (map_id ir) at 2. apply map_ext_in. intros s Hs.
    rewrite Forall_forall in H. specialize (H s Hs). destruct s; try reflexivity.
    destruct H as [-> ->]. reflexivity.
  Qed.

  (** With exact parameters the text means the circuit itself, comments
      dropped, measurements sent to the bit of their qubit, numbered 1, 2, ...;
      when the measurements are already so, the circuit modulo object identities. *)
  Corollary v1_parse_export_exact (nq : Z) (ir : list stmt) (text : string) :
    export_v1 dec8 nq ir = Ok text ->
    (0 <= nq)%Z -> exportable dec8 ir -> Forall (rt_coherent N) ir -> exact_params1 ir ->
    v1_parse text = Ok (nq, renumber 1%positive (map v1_retarget (strip_comments ir))).
  Proof.
    intros Hw Hq Hok Hco Hx. rewrite (v1_parse_export nq ir text Hw Hq Hok Hco).
    rewrite <- (strip_comments_map rebuild1 ir is_comment_rebuild1), (rebuild1_all_exact ir Hco Hx). reflexivity.
  Qed.

  Corollary v1_parse_export_identity (nq : Z) (ir : list stmt) (text : string) :
    export_v1 dec8 nq ir = Ok text ->
    (0 <= nq)%Z -> exportable dec8 ir -> Forall (rt_coherent N) ir -> exact_params1 ir ->
    Forall v1_native ir ->
    exists ir', v1_parse text = Ok (nq, ir') /\ same_modulo_oid ir' (strip_comments ir).
  Proof.
    intros Hw Hq Hok Hco Hx Hn. eexists. split; [exact (v1_parse_export_exact nq ir text Hw Hq Hok Hco Hx)|].
    rewrite <- (strip_comments_map v1_retarget ir is_comment_retarget), (retarget_native ir Hn).
    apply forget_renumber.
  Qed.

  (* ------------------------------------------------------------------ *)
  (** * 5. What the text does not carry, and what it never is            *)
  (* ------------------------------------------------------------------ *)

  (* the bit target of a measurement is not in the text: two circuits that
     differ only there are exported to the same text *)
  Theorem v1_loses_bit_targets (nq : Z) (pre post : list stmt) (o : positive) (q b b' : Z)
          (ax : axis3 T) (n : string) :
    export_v1 dec8 nq (pre ++ SMeasure o q b ax (mkGinfo (Some n) (Some [AQ q; AB b])) :: post) =
    export_v1 dec8 nq (pre ++ SMeasure o q b' ax (mkGinfo (Some n) (Some [AQ q; AB b'])) :: post).
  Proof. unfold export_v1. rewrite !map_app. reflexivity. Qed.

  (* an anonymous gate never produces a text: there is no text "with a gap"
     whose meaning would miss a gate *)
  Corollary v1_anonymous_no_text (nq : Z) (ir : list stmt) (o : positive) (g : gate T) (gi : ginfo T) :
    In (SGate o g gi) ir -> gargs gi = None -> forall text, export_v1 dec8 nq ir <> Ok text.
  Proof.
    intros Hi Hn text Hw. exact (v1_anonymous_refused dec8 nq ir text Hw o g gi Hi Hn).
  Qed.

  Corollary v1_anonymous_no_meaning (nq : Z) (ir : list stmt) (o : positive) (g : gate T) (gi : ginfo T) :
    In (SGate o g gi) ir -> gargs gi = None ->
    match export_v1 dec8 nq ir with Ok text => False | Err _ => True end.
  Proof.
    intros Hi Hn. destruct (export_v1 dec8 nq ir) as [text|e] eqn:E; [|exact I].
    exact (v1_anonymous_no_text nq ir o g gi Hi Hn text E).
  Qed.

  (* the circuits of the cQASM 3 round trip are exportable: no extra condition *)
  Lemma stmt_ok_coherent_ok1 (s : stmt) : stmt_ok dec8 s -> rt_coherent N s -> stmt_ok1 dec8 s.
  Proof.
    destruct s as [o g gi|o q b ax gi|o q gi|t]; cbn [stmt_ok stmt_ok1 rt_coherent].
    - intros (n & args & Hgn & Hga & Hid & Hargs & Hq) (n' & args' & Hgn' & Hga' & Hd).
      assert (n' = n) by congruence. assert (args' = args) by congruence. subst n' args'.
      exists n, args. repeat split; auto.
      destruct (default_gate_args_shape _ _ _ _ _ Hd) as (Hsh & Hl & _).
      rewrite Hsh, forallb_app. apply andb_true_iff. split.
      + apply forallb_forall. intros a Ha. apply in_map_iff in Ha. destruct Ha as (z & <- & _). reflexivity.
      + rewrite forallb_forall in Hl |- *. intros a Ha. specialize (Hl a Ha). destruct a; try discriminate; reflexivity.
    - intros (n & q' & b' & rest & Hgn & Hga & Hid & Hq & Hb) _. now exists q', (AB b' :: rest).
    - intros (n & q' & rest & Hgn & Hga & Hid & Hq) _. now exists q', rest.
    - auto.
  Qed.

  Lemma writable_coherent_exportable (ir : list stmt) :
    writable dec8 ir -> Forall (rt_coherent N) ir -> exportable dec8 ir.
  Proof.
    unfold writable, exportable. intros H1 H2. rewrite Forall_forall in *.
    intros s Hs. apply stmt_ok_coherent_ok1; auto.
  Qed.
End SemV1.

(* ------------------------------------------------------------------ *)
(** * 5b. What [round_real1] is when the text is converted exactly (T := Q) *)
(* ------------------------------------------------------------------ *)
(* Python's rendering "1e-05" is repaired to the literal "1.0e-05" and
   converted exactly: the real read back is the decimal [dec8 x] *)

From Coq Require QArith.

Definition of_lit1_Q (s : string) : QArith_base.Q :=
  match signed_literal_value (fix_literal s) with Some q => q | None => QArith_base.Qmake 0 1 end.

Lemma round_real1_Q (dec8 : QArith_base.Q -> dec) (x : QArith_base.Q) :
  wf_dec (dec8 x) -> dec_finite (dec8 x) ->
  optQeq (Some (round_real1 dec8 of_lit1_Q x)) (dec_value (dec8 x)).
Proof.
  intros Hw Hf. pose proof (render_fix_value (dec8 x) Hw Hf) as H.
  unfold round_real1, of_lit1_Q, v1_float.
  destruct (signed_literal_value (fix_literal (render_py8 (dec8 x)))) as [q|]; [exact H|].
  destruct (dec8 x) as [ | |neg ds e]; try destruct Hf. cbn [dec_value optQeq] in H. destruct H.
Qed.

(* ------------------------------------------------------------------ *)
(** * 6. The operation (over R)                                          *)
(* ------------------------------------------------------------------ *)

From Coq Require Reals.
From OSQ Require RNum Kraus SemBaseP.

Section SemV1Op.
  Import Reals RNum Kraus SemBaseP.
  Variable dec8 : R -> dec.
  Variable of_lit : string -> R.

  Notation retarget := (@v1_retarget R).
  Notation rebuildR := (rebuild1 RNum dec8 of_lit).

  Lemma stmt_op_retarget n o k (s : stmt R) : stmt_op n o k (retarget s) = stmt_op n o k s.
  Proof. destruct s; reflexivity. Qed.

  Lemma kraus_from_retarget n o (l : list (stmt R)) : forall k acc,
    kraus_from n o k acc (map retarget l) = kraus_from n o k acc l.
  Proof.
    induction l as [|s r IH]; intros k acc; [reflexivity|].
    cbn [map kraus_from]. rewrite stmt_op_retarget.
    destruct (stmt_op n o k s) as [[[M|]|e] k']; try reflexivity; apply IH.
  Qed.

  (* the Kraus operators do not see the bit targets *)
  Lemma kraus_retarget n o (l : list (stmt R)) : kraus n o (map retarget l) = kraus n o l.
  Proof. apply kraus_from_retarget. Qed.

  (* every measurement writes to the bit of its qubit *)
  Definition bits_follow_qubits (ir : list (stmt R)) : Prop :=
    Forall (fun s => match s with SMeasure _ q b _ _ => b = q | _ => True end) ir.

  Lemma effects_retarget (l : list (stmt R)) : bits_follow_qubits l -> effects (map retarget l) = effects l.
  Proof.
    induction 1 as [|s r Hs _ IH]; [reflexivity|].
    destruct s; cbn [map v1_retarget effects]; rewrite ?IH; try reflexivity. now subst.
  Qed.

  Lemma retarget_same_operation n (l : list (stmt R)) :
    bits_follow_qubits l -> same_operation n l (map retarget l).
  Proof.
    intros H. split; [now apply effects_retarget|].
    intros o A HA. exists A. split; [now rewrite kraus_retarget|apply mequiv_refl].
  Qed.

  Lemma kraus_strip n o (l : list (stmt R)) : kraus n o (strip_comments l) = kraus n o l.
  Proof. apply kraus_from_strip. Qed.

  (** For every assignment of outcomes, the circuit meant by the exported text
      has the Kraus operator of the circuit rebuilt from the rounded
      parameters - equal, no phase. *)
  Theorem v1_read_back_kraus_rounded (nq : Z) (ir : list (stmt R)) (text : string) :
    export_v1 dec8 nq ir = Ok text ->
    (0 <= nq)%Z -> exportable dec8 ir -> Forall (rt_coherent RNum) ir ->
    exists ir', v1_parse RNum of_lit text = Ok (nq, ir') /\
      forall o, kraus nq o ir' = kraus nq o (map rebuildR ir).
  Proof.
    intros Hw Hq Hok Hco. eexists. split; [exact (v1_parse_export RNum dec8 of_lit nq ir text Hw Hq Hok Hco)|]. intros o.
    rewrite <- (kraus_forget_oids nq o (renumber _ _)), forget_renumber, kraus_forget_oids.
    rewrite kraus_retarget, <- (strip_comments_map rebuildR ir (is_comment_rebuild1 RNum dec8 of_lit)).
    apply kraus_strip.
  Qed.

  (** ... and with exact parameters the Kraus operator of the circuit itself. *)
  Theorem v1_read_back_kraus (nq : Z) (ir : list (stmt R)) (text : string) :
    export_v1 dec8 nq ir = Ok text ->
    (0 <= nq)%Z -> exportable dec8 ir -> Forall (rt_coherent RNum) ir ->
    exact_params1 dec8 of_lit ir ->
    exists ir', v1_parse RNum of_lit text = Ok (nq, ir') /\
      forall o, kraus nq o ir' = kraus nq o ir.
  Proof.
    intros Hw Hq Hok Hco Hx.
    destruct (v1_read_back_kraus_rounded nq ir text Hw Hq Hok Hco) as (ir' & Hp & Hk).
    exists ir'. split; [exact Hp|]. intros o. now rewrite Hk, (rebuild1_all_exact RNum dec8 of_lit ir Hco Hx).
  Qed.

  (** In general: the text does what the circuit does once its parameters are
      rounded and its measurements sent to the bit of their qubit (the same
      measurements and resets in the same order and, for every combination of
      outcomes, the same Kraus operator). *)
  Theorem v1_read_back_same_operation_rounded (nq : Z) (ir : list (stmt R)) (text : string) :
    export_v1 dec8 nq ir = Ok text ->
    (0 <= nq)%Z -> exportable dec8 ir -> Forall (rt_coherent RNum) ir ->
    exists ir', v1_parse RNum of_lit text = Ok (nq, ir') /\
      same_operation nq (map retarget (map rebuildR ir)) ir'.
  Proof.
    intros Hw Hq Hok Hco. eexists. split; [exact (v1_parse_export RNum dec8 of_lit nq ir text Hw Hq Hok Hco)|].
    eapply same_operation_trans; [apply strip_comments_same_operation|].
    apply same_modulo_oid_same_operation.
    rewrite (strip_comments_map retarget _ (@is_comment_retarget R)).
    rewrite (strip_comments_map rebuildR ir (is_comment_rebuild1 RNum dec8 of_lit)).
    apply forget_renumber.
  Qed.

  (** THE OPERATION.  When the parameters are exact and the measurements write
      to the bit of their qubit, the circuit meant by the exported text does the
      same operation as the circuit. *)
  Theorem v1_read_back_same_operation (nq : Z) (ir : list (stmt R)) (text : string) :
    export_v1 dec8 nq ir = Ok text ->
    (0 <= nq)%Z -> exportable dec8 ir -> Forall (rt_coherent RNum) ir ->
    exact_params1 dec8 of_lit ir -> bits_follow_qubits ir ->
    exists ir', v1_parse RNum of_lit text = Ok (nq, ir') /\ same_operation nq ir ir'.
  Proof.
    intros Hw Hq Hok Hco Hx Hb.
    destruct (v1_read_back_same_operation_rounded nq ir text Hw Hq Hok Hco) as (ir' & Hp & Hs).
    exists ir'. split; [exact Hp|].
    rewrite (rebuild1_all_exact RNum dec8 of_lit ir Hco Hx) in Hs.
    eapply same_operation_trans; [apply retarget_same_operation, Hb|exact Hs].
  Qed.

  (* rounded parameters, measurements on their own bits *)
  Corollary v1_read_back_same_operation_rounded_bits (nq : Z) (ir : list (stmt R)) (text : string) :
    export_v1 dec8 nq ir = Ok text ->
    (0 <= nq)%Z -> exportable dec8 ir -> Forall (rt_coherent RNum) ir -> bits_follow_qubits ir ->
    exists ir', v1_parse RNum of_lit text = Ok (nq, ir') /\ same_operation nq (map rebuildR ir) ir'.
  Proof.
    intros Hw Hq Hok Hco Hb.
    destruct (v1_read_back_same_operation_rounded nq ir text Hw Hq Hok Hco) as (ir' & Hp & Hs).
    exists ir'. split; [exact Hp|].
    eapply same_operation_trans; [apply retarget_same_operation|exact Hs].
    unfold bits_follow_qubits in *. apply Forall_forall. intros s' Hs'. apply in_map_iff in Hs'.
    destruct Hs' as (s & <- & Hin). rewrite Forall_forall in Hb. specialize (Hb s Hin).
    destruct s as [o g gi| | |]; try exact Hb.
    destruct (rebuild1_is_gate RNum dec8 of_lit o g gi) as (g' & gi' & ->). exact I.
  Qed.

  (* [bits_follow_qubits] is needed: "measure q[0] -> b[1]" is exported (no
     error), the text means "measure q[0] -> b[0]" *)
  Definition ex_meas01 : list (stmt R) :=
    [ SMeasure 1 0%Z 1%Z (v1_zaxis RNum) (mkGinfo (Some "measure") (Some [AQ 0%Z; AB 1%Z])) ].

  Theorem v1_same_operation_bits_refuted :
    exists (ir : list (stmt R)) text ir',
      export_v1 dec8 1 ir = Ok text /\ exportable dec8 ir /\ Forall (rt_coherent RNum) ir /\
      exact_params1 dec8 of_lit ir /\ ~ bits_follow_qubits ir /\
      v1_parse RNum of_lit text = Ok (1%Z, ir') /\ ~ same_operation 1 ir ir'.
  Proof.
    assert (Hok : exportable dec8 ex_meas01).
    { constructor; [|constructor]. cbn [stmt_ok1]. exists 0%Z, [AB 1%Z]. split; [reflexivity|lia]. }
    assert (Hco : Forall (rt_coherent RNum) ex_meas01).
    { constructor; [|constructor]. cbn [rt_coherent]. exists "measure". repeat split. }
    destruct (export_v1 dec8 1 ex_meas01) as [text|e] eqn:Hw; [|discriminate Hw].
    exists ex_meas01, text. eexists. split; [exact Hw|]. split; [exact Hok|]. split; [exact Hco|].
    split; [repeat constructor|]. split.
    - intros H. inversion H as [|? ? H1 _]; subst. discriminate H1.
    - split; [apply (v1_parse_export RNum dec8 of_lit 1 ex_meas01 text Hw); [lia|exact Hok|exact Hco]|].
      intros [He _]. unfold ex_meas01, strip_comments in He.
      cbn [filter is_comment negb map rebuild1 v1_retarget renumber set_oid effects] in He.
      inversion He.
  Qed.
End SemV1Op.

(* ------------------------------------------------------------------ *)
(** * 7. Non-vacuity: a concrete circuit, by computation                 *)
(* ------------------------------------------------------------------ *)
(* T := dec, [decNum], [ex_trunc8], [ex_rt] of RoundTripP.v: comment, H, CNOT,
   Rx(1.57079632679), CR(-1.0e-05), CRk(3), measure q[1] -> b[0], reset q[0] *)

(* one evaluation by the virtual machine, at Qed *)
Ltac vm_refl := match goal with |- ?a = ?b => vm_cast_no_check (@eq_refl _ b) end.

(* Python writes -1.0e-05 as "-1e-05": the conversion sees the repaired literal *)
Definition ex_of_lit1 (s : string) : dec := ex_of_lit (fix_literal s).

Example ex_v1_text :
  export_v1 ex_trunc8 2 (ex_rt ex_theta_long) =
  Ok ("version 1.0" ++ NL ++ NL ++ "qubits 2" ++ NL ++ NL ++ NL ++
      "/* bell */" ++ NL ++ NL ++
      "h q[0]" ++ NL ++ "cnot q[0], q[1]" ++ NL ++ "rx q[1], 1.5707963" ++ NL ++
      "cr q[1], q[0], -1e-05" ++ NL ++ "crk q[0], q[1], 3" ++ NL ++
      "measure_z q[1]" ++ NL ++ "prep_z q[0]" ++ NL).
Proof. vm_refl. Qed.

Example ex_v1_lines :
  match export_v1 ex_trunc8 2 (ex_rt ex_theta_long) with Ok t => read1 t | Err _ => None end =
  Some (2%Z, [ RComment "bell";
               RGate "h" [] [0%Z];
               RGate "cnot" [] [0%Z; 1%Z];
               RGate "rx" [RNumLit "1.5707963"] [1%Z];
               RGate "cr" [RNumLit "-1e-05"] [1%Z; 0%Z];
               RGate "crk" [RInt 3] [0%Z; 1%Z];
               RGate "measure_z" [] [1%Z];
               RGate "prep_z" [] [0%Z] ]).
Proof. vm_refl. Qed.

Definition ex_v1_chain (nq : Z) (ir : list (stmt dec)) : result (Z * list (stmt dec)) :=
  match export_v1 ex_trunc8 nq ir with
  | Ok t => v1_parse decNum ex_of_lit1 t
  | Err e => Err e
  end.

(* 1.57079632679 comes back as 1.5707963; the measure q[1] -> b[0] as measure_z q[1] -> b[1] *)
Example ex_v1_parse :
  ex_v1_chain 2 (ex_rt ex_theta_long) =
  Ok (2%Z, renumber 1 (map (@v1_retarget dec) (strip_comments (ex_rt ex_theta)))).
Proof. vm_refl. Qed.

Example ex_v1_parse_rebuild :
  ex_v1_chain 2 (ex_rt ex_theta_long) =
  Ok (2%Z, renumber 1 (map (@v1_retarget dec)
                           (map (rebuild1 decNum ex_trunc8 ex_of_lit1) (strip_comments (ex_rt ex_theta_long))))).
Proof. vm_refl. Qed.

(* what the text means, as instruction names, arguments and bit targets *)
Example ex_v1_view :
  match ex_v1_chain 2 (ex_rt ex_theta_long) with
  | Ok (_, ir') => map (fun s => (rt_oid s, rt_instr s, rt_args s, rt_bit s)) ir'
  | Err _ => []
  end =
  [ (Some 1%positive, (0%nat, Some "H"), Some [AQ 0%Z], None);
    (Some 2%positive, (0%nat, Some "CNOT"), Some [AQ 0%Z; AQ 1%Z], None);
    (Some 3%positive, (0%nat, Some "Rx"), Some [AQ 1%Z; AF ex_theta], None);
    (Some 4%positive, (0%nat, Some "CR"), Some [AQ 1%Z; AQ 0%Z; AF ex_small], None);
    (Some 5%positive, (0%nat, Some "CRk"), Some [AQ 0%Z; AQ 1%Z; AI 3%Z], None);
    (Some 6%positive, (1%nat, Some "measure_z"), Some [AQ 1%Z; AB 1%Z], Some 1%Z);
    (Some 7%positive, (2%nat, Some "reset"), Some [AQ 0%Z], None) ].
Proof. vm_refl. Qed.

(* the bit target is lost: the circuit had measure q[1] -> b[0] *)
Example ex_v1_bit_lost :
  map (@rt_bit dec) (strip_comments (ex_rt ex_theta)) <>
  match ex_v1_chain 2 (ex_rt ex_theta) with Ok (_, ir') => map (@rt_bit dec) ir' | Err _ => [] end.
Proof. vm_compute. discriminate. Qed.

(* the hypotheses hold for this circuit: the theorems are not vacuous *)
Lemma ex_v1_hyps (theta : dec) : wf_dec (ex_trunc8 theta) -> dec_finite (ex_trunc8 theta) ->
  exportable ex_trunc8 (ex_rt theta) /\ Forall (rt_coherent decNum) (ex_rt theta).
Proof.
  intros Hw Hf. destruct (ex_rt_hyps theta Hw Hf) as (H1 & H2 & _).
  split; [now apply (writable_coherent_exportable decNum)|exact H2].
Qed.

Example ex_v1_by_theorem (text : string) :
  export_v1 ex_trunc8 2 (ex_rt ex_theta_long) = Ok text ->
  v1_parse decNum ex_of_lit1 text =
  Ok (2%Z, renumber 1 (map (@v1_retarget dec)
                           (map (rebuild1 decNum ex_trunc8 ex_of_lit1) (strip_comments (ex_rt ex_theta_long))))).
Proof.
  intros Hw. destruct (ex_v1_hyps ex_theta_long) as (H1 & H2); try apply ex_theta_long_ok.
  apply (v1_parse_export decNum ex_trunc8 ex_of_lit1 2 _ text Hw); auto; lia.
Qed.

Lemma ex_v1_exact : exact_params1 ex_trunc8 ex_of_lit1 (ex_rt ex_theta).
Proof. unfold exact_params1, ex_rt. repeat constructor. Qed.

Example ex_v1_exact_by_corollary (text : string) :
  export_v1 ex_trunc8 2 (ex_rt ex_theta) = Ok text ->
  v1_parse decNum ex_of_lit1 text =
  Ok (2%Z, renumber 1 (map (@v1_retarget dec) (strip_comments (ex_rt ex_theta)))).
Proof.
  intros Hw. destruct (ex_v1_hyps ex_theta) as (H1 & H2); try apply ex_theta_ok.
  apply (v1_parse_export_exact decNum ex_trunc8 ex_of_lit1 2 _ text Hw); auto; try lia.
  exact ex_v1_exact.
Qed.

(* an anonymous gate: no text, hence nothing to give a meaning to *)
Example ex_v1_anonymous :
  export_v1 (fun x : dec => x) 1 ex_circuit3 = Err EExport.
Proof. vm_refl. Qed.

(* a line that is not cQASM 1 for the default set has no meaning *)
Example ex_v1_unknown_name :
  v1_meaning decNum ex_of_lit1 (RGate "foo" [] [0%Z]) 1 = Err EValue /\
  v1_meaning decNum ex_of_lit1 (RGate "rx" [] [0%Z]) 1 = Err EType /\
  v1_meaning decNum ex_of_lit1 (RGate "measure_z" [RInt 1] [0%Z]) 1 = Err EType.
Proof. vm_compute. repeat split. Qed.

Print Assumptions default_names_lower_injective.
Print Assumptions v1_table_name_lower.
Print Assumptions v1_line_meaning.
Print Assumptions v1_read_back_statements.
Print Assumptions v1_parse_export.
Print Assumptions v1_read_back_modulo.
Print Assumptions v1_parse_export_exact.
Print Assumptions v1_parse_export_identity.
Print Assumptions v1_loses_bit_targets.
Print Assumptions v1_anonymous_no_text.
Print Assumptions writable_coherent_exportable.
Print Assumptions round_real1_Q.
Print Assumptions ex_v1_by_theorem.
Print Assumptions v1_read_back_kraus_rounded.
Print Assumptions v1_read_back_kraus.
Print Assumptions v1_read_back_same_operation_rounded.
Print Assumptions v1_read_back_same_operation.
Print Assumptions v1_same_operation_bits_refuted.
