(* McKayP.v — exactness of the McKay decomposition (Model/McKay.v,
   decomposer/mckay_decomposer.py) over the reals, as unit quaternions:
     Rz(phi) X90 Rz(theta) X90 Rz(lam) = R_n(angle)        (X90 = Rx(PI/2)).
   1. [mckay_product]: the five-gate product in closed form.
   2. [mckay_general_exact]: with the model's un-normalised lam, theta, phi the product is
      [qrot n angle] itself (sign +), for a unit axis with (nx, ny) <> (0, 0), sin(angle/2) <> 0.
   3. [mckay_gates_exact] (+ [mckay_gates_exact_matrix]): in the regime where every ATOL test
      agrees with its exact counterpart ([mckay_regime]) the model returns a list whose
      quaternion product is +-[qrot n angle]; all branches: [], [Rz], Z-X90-Z shortcut (via
      [aba_angles_exact_strong]), [X90; X90], and the 3..5 gate list.
      [mckay_gates_general_exact]: the McKay branch alone, list explicit.
   4. [mckay_xx_branch_exact]: theta = 0 exactly and lam == phi force the axis to be +-x and
      the branch is exact; [mckay_lam_eq_phi_axis]: lam == phi alone only gives ny = 0;
      [mckay_xx_branch_exact_refuted]: with only |theta| < ATOL the branch is taken for the
      axis (cos d, 0, sin d), d = ATOL/4, and [X90; X90] is not the gate up to phase.
   [mckay_X], [mckay_H]: the regime is inhabited (X -> [X90; X90], H -> Rz X90 Rz). *)
From Coq Require Import Reals ZArith List Bool String Lra Lia.
Import ListNotations.
From OSQ Require Import Num IR Construct DefaultTable Matrix ABA McKay RTrig RNum SU2 ConstructP ABAP.
Open Scope R_scope.

(* ------------------------------------------------------------------ *)
(** * 1. the product Rz X90 Rz X90 Rz *)

(* X90 Rz(theta) X90 = cos(theta/2) i + sin(theta/2) k *)
Lemma x90_rz_x90 theta :
  qmul (qrx (PI / 2)) (qmul (qrz theta) (qrx (PI / 2))) = (0, cos (theta / 2), 0, sin (theta / 2)).
Proof.
  unfold qrx, qrz. rewrite (aba_product AxX AxZ (PI / 2) theta (PI / 2)) by discriminate.
  replace ((PI / 2 + PI / 2) / 2) with (PI / 2) by field.
  replace ((PI / 2 - PI / 2) / 2) with 0 by field.
  rewrite cos_PI2, sin_PI2, cos_0, sin_0.
  unfold qabc, sigma.
  change (Z.eqb (axis_index AxX) (axis_index AxX)) with true.
  change (Z.eqb (axis_index AxY) (axis_index AxX)) with false.
  change (Z.eqb (axis_index AxY) (axis_index AxZ)) with false.
  change (Z.eqb (axis_index AxZ) (axis_index AxX)) with false.
  change (Z.eqb (axis_index AxZ) (axis_index AxZ)) with true.
  cbv iota.
  apply quat_eq; unfold qw, qx, qy, qz; cbn [fst snd]; ring.
Qed.

Theorem mckay_product phi theta lam :
  qmul (qrz phi) (qmul (qrx (PI / 2)) (qmul (qrz theta) (qmul (qrx (PI / 2)) (qrz lam)))) =
  (- (sin (theta / 2) * sin ((phi + lam) / 2)),
   cos (theta / 2) * cos ((phi - lam) / 2),
   cos (theta / 2) * sin ((phi - lam) / 2),
   sin (theta / 2) * cos ((phi + lam) / 2)).
Proof.
  rewrite (qmul_assoc (qrz theta) (qrx (PI / 2)) (qrz lam)).
  rewrite (qmul_assoc (qrx (PI / 2)) (qmul (qrz theta) (qrx (PI / 2))) (qrz lam)).
  rewrite x90_rz_x90.
  replace ((phi + lam) / 2) with (phi / 2 + lam / 2) by field.
  replace ((phi - lam) / 2) with (phi / 2 - lam / 2) by field.
  rewrite cos_plus, sin_plus, cos_minus, sin_minus.
  unfold qrz, qrot, e_axis, ax_x, ax_y, ax_z. cbn [fst snd].
  apply quat_eq; unfold qmul, qw, qx, qy, qz; cbn [fst snd]; ring.
Qed.

(* Rz(l) Rx(PI) Rz(l) = Rx(PI): used by the [X90; X90] branch *)
Lemma rz_x90_x90_rz l :
  qmul (qrz l) (qmul (qrx (PI / 2)) (qmul (qrz 0) (qmul (qrx (PI / 2)) (qrz l)))) = qrx PI.
Proof.
  rewrite mckay_product.
  replace (0 / 2) with 0 by field. replace ((l - l) / 2) with 0 by field.
  rewrite cos_0, sin_0.
  unfold qrx, qrot, e_axis, ax_x, ax_y, ax_z. cbn [fst snd]. rewrite cos_PI2, sin_PI2.
  apply quat_eq; unfold qw, qx, qy, qz; cbn [fst snd]; ring.
Qed.

Lemma x90_x90 : qmul (qrx (PI / 2)) (qrx (PI / 2)) = qrx PI.
Proof.
  unfold qrx. rewrite qrot_add by apply e_axis_unit. f_equal. field.
Qed.

(* ------------------------------------------------------------------ *)
(** * 2. the McKay angles are exact *)

(* the model's intermediate quantities, over R *)
Definition mk_sh (angle : R) : R := sin (angle / 2).
Definition mk_ch (angle : R) : R := cos (angle / 2).
Definition mk_za (n : axis3 R) (angle : R) : R :=
  sqrt (mk_ch angle * mk_ch angle + (ax_z n * mk_sh angle) * (ax_z n * mk_sh angle)).
Definition mk_zb (n : axis3 R) (angle : R) : R :=
  Rabs (mk_sh angle) * sqrt (ax_x n * ax_x n + ax_y n * ax_y n).
Definition mk_theta (n : axis3 R) (angle : R) : R := PI - 2 * atan2 (mk_zb n angle) (mk_za n angle).
Definition mk_alpha (n : axis3 R) (angle : R) : R := atan2 (- mk_sh angle * ax_z n) (mk_ch angle).
Definition mk_beta (n : axis3 R) (angle : R) : R := atan2 (- mk_sh angle * ax_x n) (- mk_sh angle * ax_y n).
Definition mk_lam (n : axis3 R) (angle : R) : R := mk_beta n angle - mk_alpha n angle.
Definition mk_phi (n : axis3 R) (angle : R) : R := - mk_beta n angle - mk_alpha n angle - PI.

Section General.
Variables (n : axis3 R) (angle : R).
Hypothesis Hunit : unit_axis n.
Hypothesis Hxy : ax_x n <> 0 \/ ax_y n <> 0.
Hypothesis Hs : sin (angle / 2) <> 0.

Local Notation nx := (ax_x n).
Local Notation ny := (ax_y n).
Local Notation nz := (ax_z n).
Local Notation sh := (mk_sh angle).
Local Notation ch := (mk_ch angle).
Local Notation za := (mk_za n angle).
Local Notation zb := (mk_zb n angle).
Local Notation rho := (sqrt (nx * nx + ny * ny)).

Lemma mk_cs1 : ch * ch + sh * sh = 1.
Proof. unfold mk_ch, mk_sh. pose proof (sin2_cos2 (angle / 2)) as H. unfold Rsqr in H. lra. Qed.

Lemma mk_rho_pos : 0 < rho.
Proof. apply sqrt_sq_sum_pos. exact Hxy. Qed.

Lemma mk_rho_sq : rho * rho = nx * nx + ny * ny.
Proof. apply sqrt_sqrt. nra. Qed.

Lemma mk_abs_sq x : Rabs x * Rabs x = x * x.
Proof. unfold Rabs. destruct (Rcase_abs x); ring. Qed.

Lemma mk_zb_pos : 0 < zb.
Proof.
  unfold mk_zb. apply Rmult_lt_0_compat; [|apply mk_rho_pos].
  apply Rabs_pos_lt. exact Hs.
Qed.

Lemma mk_zb_sq : zb * zb = sh * sh * (nx * nx + ny * ny).
Proof.
  unfold mk_zb.
  replace (Rabs sh * rho * (Rabs sh * rho)) with ((Rabs sh * Rabs sh) * (rho * rho)) by ring.
  rewrite mk_abs_sq, mk_rho_sq. reflexivity.
Qed.

Lemma mk_za_nonneg : 0 <= za.
Proof. apply sqrt_pos. Qed.

Lemma mk_za_sq : za * za = ch * ch + (nz * sh) * (nz * sh).
Proof. apply sqrt_sqrt. nra. Qed.

Lemma mk_zab1 : za * za + zb * zb = 1.
Proof.
  rewrite mk_za_sq, mk_zb_sq. pose proof mk_cs1 as H. unfold unit_axis in Hunit.
  replace (ch * ch + nz * sh * (nz * sh) + sh * sh * (nx * nx + ny * ny))
    with (ch * ch + sh * sh * (nx * nx + ny * ny + nz * nz)) by ring.
  rewrite Hunit. lra.
Qed.

(* theta / 2 = PI/2 - atan2 zb za *)
Lemma mk_cos_half_theta : cos (mk_theta n angle / 2) = zb.
Proof.
  unfold mk_theta. replace ((PI - 2 * atan2 zb za) / 2) with (PI / 2 - atan2 zb za) by field.
  rewrite cos_shift, sin_atan2 by (right; pose proof mk_zb_pos; lra).
  rewrite mk_zab1, sqrt_1. field.
Qed.

Lemma mk_sin_half_theta : sin (mk_theta n angle / 2) = za.
Proof.
  unfold mk_theta. replace ((PI - 2 * atan2 zb za) / 2) with (PI / 2 - atan2 zb za) by field.
  rewrite sin_shift, cos_atan2 by (right; pose proof mk_zb_pos; lra).
  rewrite mk_zab1, sqrt_1. field.
Qed.

(* alpha: also true when za = 0 (then both sides vanish) *)
Lemma mk_alpha_cs :
  za * cos (mk_alpha n angle) = ch /\ za * sin (mk_alpha n angle) = - sh * nz.
Proof.
  pose proof mk_za_nonneg as H0. pose proof mk_za_sq as Hq.
  destruct (Req_dec za 0) as [Hz | Hz].
  - rewrite Hz in *. assert (ch = 0) by nra. assert (nz * sh = 0) by nra. split; nra.
  - assert (Hnz : ch <> 0 \/ - sh * nz <> 0).
    { destruct (Req_dec ch 0) as [Hc|Hc]; [right|left; exact Hc].
      intros Hy. apply Hz. rewrite Hc in Hq. assert (nz * sh = 0) by lra. nra. }
    unfold mk_alpha. rewrite cos_atan2, sin_atan2 by exact Hnz.
    replace (ch * ch + - sh * nz * (- sh * nz)) with (ch * ch + nz * sh * (nz * sh)) by ring.
    fold za. split; field; exact Hz.
Qed.

Lemma mk_beta_cs :
  zb * cos (mk_beta n angle) = - sh * ny /\ zb * sin (mk_beta n angle) = - sh * nx.
Proof.
  pose proof mk_zb_pos as Hp.
  assert (Hnz : - sh * ny <> 0 \/ - sh * nx <> 0).
  { unfold mk_sh. destruct Hxy as [Hx|Hy]; [right|left]; intros H;
      apply Rmult_integral in H; destruct H as [H|H]; try contradiction; apply Hs; lra. }
  unfold mk_beta. rewrite cos_atan2, sin_atan2 by exact Hnz.
  replace (- sh * ny * (- sh * ny) + - sh * nx * (- sh * nx)) with (zb * zb) by (rewrite mk_zb_sq; ring).
  rewrite sqrt_square by lra. split; field; lra.
Qed.

Theorem mckay_general_exact_sec :
  qmul (qrz (mk_phi n angle))
    (qmul (qrx (PI / 2)) (qmul (qrz (mk_theta n angle)) (qmul (qrx (PI / 2)) (qrz (mk_lam n angle))))) =
  qrot n angle.
Proof.
  rewrite mckay_product, mk_cos_half_theta, mk_sin_half_theta.
  unfold mk_phi, mk_lam.
  set (al := mk_alpha n angle). set (be := mk_beta n angle).
  replace ((- be - al - PI + (be - al)) / 2) with (- (al + PI / 2)) by field.
  replace ((- be - al - PI - (be - al)) / 2) with (- (be + PI / 2)) by field.
  rewrite !cos_neg, !sin_neg, !cos_plus, !sin_plus, cos_PI2, sin_PI2.
  destruct mk_alpha_cs as [Ha1 Ha2]. destruct mk_beta_cs as [Hb1 Hb2].
  fold al in Ha1, Ha2. fold be in Hb1, Hb2.
  unfold qrot. fold sh ch.
  apply quat_eq; unfold qw, qx, qy, qz; cbn [fst snd].
  - rewrite <- Ha1. ring.
  - replace (sh * nx) with (- (- sh * nx)) by ring. rewrite <- Hb2. ring.
  - replace (sh * ny) with (- (- sh * ny)) by ring. rewrite <- Hb1. ring.
  - replace (sh * nz) with (- (- sh * nz)) by ring. rewrite <- Ha2. ring.
Qed.
End General.

(* 2. stated without the section: the (un-normalised, un-filtered) McKay angles of the model
   reproduce the rotation exactly, with sign + *)
Theorem mckay_general_exact (n : axis3 R) (angle : R) :
  unit_axis n -> (ax_x n <> 0 \/ ax_y n <> 0) -> sin (angle / 2) <> 0 ->
  qmul (qrz (mk_phi n angle))
    (qmul (qrx (PI / 2)) (qmul (qrz (mk_theta n angle)) (qmul (qrx (PI / 2)) (qrz (mk_lam n angle))))) =
  qrot n angle.
Proof. apply mckay_general_exact_sec. Qed.


(* ------------------------------------------------------------------ *)
(** * 3. the model [mckay_gates] at RNum *)

Open Scope string_scope.

(* the model's [zxz_angle] *)
Definition zxz_mid (zxz : list (gate R * ginfo R)) : R :=
  match zxz with
  | _ :: (BSR _ _ a1 _, gi1) :: _ => if name_is gi1 "Rx" then a1 else 0
  | _ => 0
  end.

Definition opt_rz (q : Z) (t : R) : list (gate R * ginfo R) :=
  if Rltb ATOL (Rabs t) then [rz RNum q t] else [].

(* the McKay branch proper *)
Definition mckay_tail (q : Z) (n : axis3 R) (angle : R) : list (gate R * ginfo R) :=
  let lam := normalize_angle RNum (mk_lam n angle) in
  let phi := normalize_angle RNum (mk_phi n angle) in
  let theta := normalize_angle RNum (mk_theta n angle) in
  if Rltb (Rabs theta) ATOL && Reqb lam phi then [x90 RNum q; x90 RNum q]
  else (opt_rz q lam ++ [x90 RNum q] ++ opt_rz q theta ++ [x90 RNum q] ++ opt_rz q phi)%list.

Lemma mckay_gates_R q n angle :
  mckay_gates RNum q n angle =
  if Rltb (Rabs angle) ATOL then Ok []
  else if Reqb (ax_x n) 0 && Reqb (ax_y n) 0 then Ok [rz RNum q (angle * ax_z n)]
  else match aba_gates RNum AxZ AxX (BSR q n angle 0) with
       | Err e => Err e
       | Ok zxz =>
           if Rltb (Rabs (zxz_mid zxz - PI / 2)) ATOL then
             match zxz with g0 :: _ :: rest => Ok (g0 :: x90 RNum q :: rest) | _ => Ok zxz end
           else Ok (mckay_tail q n angle)
       end.
Proof.
  transitivity
    (if Rltb (Rabs angle) ATOL then Ok []
     else if Reqb (ax_x n) 0 && Reqb (ax_y n) 0 then Ok [rz RNum q (angle * ax_z n)]
     else match aba_gates RNum AxZ AxX (BSR q n angle 0) with
          | Err e => Err e
          | Ok zxz =>
              if Rltb (Rabs (zxz_mid zxz - PI / 2)) ATOL then
                match zxz with g0 :: _ :: rest => Ok (g0 :: x90 RNum q :: rest) | _ => Ok zxz end
              else
                let lam := normalize_angle RNum (mk_lam n angle) in
                let phi := normalize_angle RNum (mk_phi n angle) in
                let theta := normalize_angle RNum (mk_theta n angle) in
                if Rltb (Rabs theta) ATOL && Reqb lam phi then Ok [x90 RNum q; x90 RNum q]
                else Ok (opt_rz q lam ++ [x90 RNum q] ++ opt_rz q theta ++ [x90 RNum q] ++ opt_rz q phi)%list
          end); [reflexivity|].
  unfold mckay_tail. cbv zeta.
  destruct (Rltb (Rabs angle) ATOL); [reflexivity|].
  destruct (Reqb (ax_x n) 0 && Reqb (ax_y n) 0); [reflexivity|].
  destruct (aba_gates RNum AxZ AxX (BSR q n angle 0)) as [zxz|e]; [|reflexivity].
  destruct (Rltb (Rabs (zxz_mid zxz - PI / 2)) ATOL); [reflexivity|].
  destruct (Rltb (Rabs (normalize_angle RNum (mk_theta n angle))) ATOL &&
            Reqb (normalize_angle RNum (mk_lam n angle)) (normalize_angle RNum (mk_phi n angle)));
    reflexivity.
Qed.

(* canonical forms of the gates built by the decomposer *)
Lemma rot_gate_full a q t :
  rot_gate RNum a q t =
  (BSR q (e_axis a) (normalize_angle RNum t) 0, mkGinfo (Some (axis_gate a)) (Some [AQ q; AF t])).
Proof.
  rewrite (surjective_pairing (rot_gate RNum a q t)), rot_gate_R, mk_axis_e, normalize_angle_0.
  f_equal. destruct a; reflexivity.
Qed.

Lemma normalize_half_pi : normalize_angle RNum (PI / 2) = PI / 2.
Proof. apply normalize_id. pose proof PI_bounds. lra. Qed.

Lemma x90_full q :
  x90 RNum q = (BSR q (e_axis AxX) (PI / 2) 0, mkGinfo (Some "X90") (Some [AQ q])).
Proof.
  assert (H : x90 RNum q =
              (BSR q (mk_axis RNum (DefaultTable.zaxis RNum (1, 0, 0)%Z))
                   (normalize_angle RNum (PI / 2)) (normalize_angle RNum 0),
               mkGinfo (Some "X90") (Some [AQ q]))) by reflexivity.
  rewrite H. pose proof (mk_axis_e AxX) as E. cbv iota in E.
  rewrite E, normalize_half_pi, normalize_angle_0. reflexivity.
Qed.

(* quaternion of a gate list in circuit order *)
Definition gl (l : list (gate R * ginfo R)) : quat := qprod (map fst l) qone.

Lemma qprod_acc l : forall acc, qprod l acc = qmul (qprod l qone) acc.
Proof.
  induction l as [|g l IH]; intros acc; cbn [qprod].
  - rewrite qmul_1_l. reflexivity.
  - rewrite (IH (qmul (gq g) acc)), (IH (qmul (gq g) qone)), qmul_1_r, qmul_assoc. reflexivity.
Qed.

Lemma qprod_app l1 l2 acc : qprod (l1 ++ l2)%list acc = qprod l2 (qprod l1 acc).
Proof. revert acc. induction l1 as [|g l1 IH]; intros acc; cbn [app qprod]; [reflexivity|apply IH]. Qed.

Lemma gl_nil : gl [] = qone.
Proof. reflexivity. Qed.

Lemma gl_app l1 l2 : gl (l1 ++ l2)%list = qmul (gl l2) (gl l1).
Proof. unfold gl. rewrite map_app, qprod_app, qprod_acc. reflexivity. Qed.

Lemma gl_one g : gl [g] = gq (fst g).
Proof. unfold gl. cbn [map qprod]. apply qmul_1_r. Qed.

Lemma gl_cons g l : gl (g :: l) = qmul (gl l) (gq (fst g)).
Proof. change (g :: l) with ([g] ++ l)%list. rewrite gl_app, gl_one. reflexivity. Qed.

Lemma gl_x90 q : gl [x90 RNum q] = qrx (PI / 2).
Proof. rewrite gl_one, x90_full. reflexivity. Qed.

Lemma gl_rz q t : gl [rz RNum q t] = qrz (normalize_angle RNum t).
Proof. rewrite gl_one. unfold rz. rewrite rot_gate_full. reflexivity. Qed.

Lemma qpm_refl p : qpm p p.
Proof. left. reflexivity. Qed.

Lemma qpm_trans p q r : qpm p q -> qpm q r -> qpm p r.
Proof.
  intros [-> | ->] [-> | ->]; unfold qpm; rewrite ?qneg_involutive; auto.
Qed.

Lemma qpm_normalize n x : qpm (qrot n (normalize_angle RNum x)) (qrot n x).
Proof. apply qrot_normalize. Qed.

(* a threshold test [ATOL < |t|] / [|t| < ATOL] agrees with [t <> 0] *)
Definition thr_exact (t : R) : Prop := t = 0 \/ ATOL < Rabs t.

Lemma gl_opt_rz q x :
  thr_exact (normalize_angle RNum x) ->
  gl (opt_rz q (normalize_angle RNum x)) = qrz (normalize_angle RNum x).
Proof.
  intros Ht. unfold opt_rz. destruct (Rltb ATOL (Rabs (normalize_angle RNum x))) eqn:E.
  - rewrite gl_rz, normalize_idem. reflexivity.
  - apply Rltb_false in E. destruct Ht as [-> | Hgt]; [|lra].
    rewrite gl_nil. unfold qrz. rewrite qrot_0. reflexivity.
Qed.

(* the McKay branch proper, including the [X90; X90] sub-branch *)
Theorem mckay_tail_exact q n angle :
  unit_axis n -> (ax_x n <> 0 \/ ax_y n <> 0) -> sin (angle / 2) <> 0 ->
  thr_exact (normalize_angle RNum (mk_lam n angle)) ->
  thr_exact (normalize_angle RNum (mk_theta n angle)) ->
  thr_exact (normalize_angle RNum (mk_phi n angle)) ->
  qpm (gl (mckay_tail q n angle)) (qrot n angle).
Proof.
  intros Hu Hxy Hs Hl Ht Hp.
  pose proof (mckay_general_exact n angle Hu Hxy Hs) as Hmain.
  set (lam := normalize_angle RNum (mk_lam n angle)) in *.
  set (phi := normalize_angle RNum (mk_phi n angle)) in *.
  set (theta := normalize_angle RNum (mk_theta n angle)) in *.
  assert (Hnorm : qpm (qmul (qrz phi) (qmul (qrx (PI / 2)) (qmul (qrz theta) (qmul (qrx (PI / 2)) (qrz lam)))))
                      (qrot n angle)).
  { rewrite <- Hmain. unfold lam, phi, theta, qrz.
    repeat apply qpm_mul; try apply qpm_refl; apply qpm_normalize. }
  unfold mckay_tail. fold lam phi theta.
  destruct (Rltb (Rabs theta) ATOL && Reqb lam phi) eqn:E.
  - (* [X90; X90] *)
    apply andb_true_iff in E. destruct E as [E1 E2].
    apply Rltb_true in E1. apply Reqb_true in E2.
    assert (Ht0 : theta = 0) by (destruct Ht as [H|H]; [exact H|lra]).
    rewrite gl_cons, gl_x90. change (gq (fst (x90 RNum q))) with (gl [x90 RNum q]) || rewrite <- gl_one.
    rewrite gl_x90, x90_x90.
    rewrite <- E2, Ht0, rz_x90_x90_rz in Hnorm. exact Hnorm.
  - rewrite !gl_app, !gl_x90.
    unfold lam at 1, phi at 1, theta at 1. rewrite !gl_opt_rz by assumption.
    fold lam phi theta. rewrite <- !qmul_assoc. exact Hnorm.
Qed.

(* the pure-z special case *)
Lemma mckay_pure_z q n angle :
  unit_axis n -> ax_x n = 0 -> ax_y n = 0 ->
  qpm (gl [rz RNum q (angle * ax_z n)]) (qrot n angle).
Proof.
  destruct n as [[a b] c]. unfold unit_axis, ax_x, ax_y, ax_z. cbn [fst snd].
  intros Hu -> ->. rewrite gl_rz.
  eapply qpm_trans; [apply qpm_normalize|]. left.
  assert (Hc : c = 1 \/ c = -1).
  { assert (H : (c - 1) * (c + 1) = 0) by lra.
    apply Rmult_integral in H. destruct H; [left|right]; lra. }
  destruct Hc as [-> | ->].
  - replace (angle * 1) with angle by ring. reflexivity.
  - unfold qrz, qrot, e_axis, ax_x, ax_y, ax_z. cbn [fst snd].
    replace (angle * -1 / 2) with (- (angle / 2)) by field.
    rewrite cos_neg, sin_neg.
    apply quat_eq; unfold qw, qx, qy, qz; cbn [fst snd]; ring.
Qed.

Lemma sin_half_nz angle : - PI < angle <= PI -> angle <> 0 -> sin (angle / 2) <> 0.
Proof.
  intros Hr Hn. destruct (Rtotal_order angle 0) as [Hlt | [Heq | Hgt]]; [|contradiction|].
  - assert (sin (angle / 2) < 0) by (apply sin_lt_0_var; lra). lra.
  - assert (0 < sin (angle / 2)) by (apply sin_gt_0; lra). lra.
Qed.

Lemma is_identity_R q ax a : is_identity RNum (BSR q ax a 0) = Rltb (Rabs a) ATOL.
Proof.
  change (is_identity RNum (BSR q ax a 0)) with (Rltb (Rabs a) ATOL && Rltb (Rabs 0) ATOL).
  assert (E : Rltb (Rabs 0) ATOL = true) by (apply Rltb_true; rewrite Rabs_R0; apply ATOL_pos).
  rewrite E. apply andb_true_r.
Qed.

Lemma aba_gates_zxz q n angle :
  aba_gates RNum AxZ AxX (BSR q n angle 0) =
  match aba_angles RNum AxZ AxX angle n with
  | Err e => Err e
  | Ok (t1, t2, t3) =>
      Ok (filter_identities RNum [rot_gate RNum AxZ q t1; rot_gate RNum AxX q t2; rot_gate RNum AxZ q t3])
  end.
Proof. reflexivity. Qed.

Lemma aba_angles_ok n angle :
  - PI + ATOL <= angle -> angle <= PI ->
  exists t1 t2 t3, aba_angles RNum AxZ AxX angle n = Ok (t1, t2, t3).
Proof.
  intros H1 H2. rewrite aba_angles_R, aba_range_check by assumption.
  destruct (finish_R _ _) as [[t1 t2] t3]. exists t1, t2, t3. reflexivity.
Qed.

(* the three gates of the ZXZ decomposition after the identity filter *)
Definition zg (q : Z) (a : axis_id) (t : R) : gate R * ginfo R :=
  (BSR q (e_axis a) (normalize_angle RNum t) 0, mkGinfo (Some (axis_gate a)) (Some [AQ q; AF t])).

Definition keepb (t : R) : bool := negb (Rltb (Rabs (normalize_angle RNum t)) ATOL).

Lemma zxz_filter q t1 t2 t3 :
  filter_identities RNum [zg q AxZ t1; zg q AxX t2; zg q AxZ t3] =
  ((if keepb t1 then [zg q AxZ t1] else []) ++ (if keepb t2 then [zg q AxX t2] else []) ++
   (if keepb t3 then [zg q AxZ t3] else []))%list.
Proof.
  unfold filter_identities, zg, keepb. cbn [filter fst]. rewrite !is_identity_R.
  destruct (Rltb (Rabs (normalize_angle RNum t1)) ATOL),
           (Rltb (Rabs (normalize_angle RNum t2)) ATOL),
           (Rltb (Rabs (normalize_angle RNum t3)) ATOL); reflexivity.
Qed.

Lemma zxz_mid_filter q t1 t2 t3 :
  zxz_mid (filter_identities RNum [zg q AxZ t1; zg q AxX t2; zg q AxZ t3]) =
  if keepb t1 && keepb t2 then normalize_angle RNum t2 else 0.
Proof.
  rewrite zxz_filter.
  destruct (keepb t1), (keepb t2), (keepb t3); reflexivity.
Qed.

(* the result of the Z-X90-Z shortcut, when it is taken *)
Lemma zxz_shortcut_list q t1 t2 t3 :
  keepb t1 = true -> keepb t2 = true ->
  match filter_identities RNum [zg q AxZ t1; zg q AxX t2; zg q AxZ t3] with
  | g0 :: _ :: rest => Ok (g0 :: x90 RNum q :: rest)
  | _ => Ok (filter_identities RNum [zg q AxZ t1; zg q AxX t2; zg q AxZ t3])
  end = Ok (zg q AxZ t1 :: x90 RNum q :: (if keepb t3 then [zg q AxZ t3] else [])).
Proof.
  intros K1 K2. rewrite zxz_filter, K1, K2. destruct (keepb t3); reflexivity.
Qed.

Lemma gq_zg q a t : gq (fst (zg q a t)) = qrot (e_axis a) (normalize_angle RNum t).
Proof. reflexivity. Qed.

Lemma keepb_true t : keepb t = true <-> ATOL <= Rabs (normalize_angle RNum t).
Proof. unfold keepb. rewrite negb_true_iff. apply Rltb_false. Qed.

Lemma keepb_false t : keepb t = false <-> Rabs (normalize_angle RNum t) < ATOL.
Proof. unfold keepb. rewrite negb_false_iff. apply Rltb_true. Qed.

Lemma half_pi_far : ATOL <= Rabs (0 - PI / 2).
Proof.
  pose proof PI_bounds. rewrite Rabs_left by lra. unfold ATOL. lra.
Qed.

Lemma aba_gates_zg q n angle :
  aba_gates RNum AxZ AxX (BSR q n angle 0) =
  match aba_angles RNum AxZ AxX angle n with
  | Err e => Err e
  | Ok (t1, t2, t3) => Ok (filter_identities RNum [zg q AxZ t1; zg q AxX t2; zg q AxZ t3])
  end.
Proof.
  rewrite aba_gates_zxz. destruct (aba_angles RNum AxZ AxX angle n) as [[[t1 t2] t3]|e]; [|reflexivity].
  rewrite !rot_gate_full. reflexivity.
Qed.

(* the Z-X90-Z shortcut, when the middle ZXZ angle is exactly PI/2 *)
Theorem mckay_shortcut_exact q n angle t1 t2 t3 :
  unit_axis n -> - PI < angle <= PI -> - PI + ATOL <= angle ->
  exact_regime AxZ AxX angle n ->
  aba_angles RNum AxZ AxX angle n = Ok (t1, t2, t3) ->
  normalize_angle RNum t2 = PI / 2 -> filter_exact t3 ->
  qpm (gl (zg q AxZ t1 :: x90 RNum q :: (if keepb t3 then [zg q AxZ t3] else []))) (qrot n angle).
Proof.
  intros Hu Hr Hlow Hreg Hang H2 Hf3.
  destruct (aba_angles_exact_strong AxZ AxX angle n ltac:(discriminate) Hu Hr Hlow Hreg)
    as (s1 & s2 & s3 & Hang' & Hprod).
  rewrite Hang in Hang'. injection Hang' as <- <- <-.
  assert (H3 : gl (if keepb t3 then [zg q AxZ t3] else []) = qrz (normalize_angle RNum t3)).
  { destruct (keepb t3) eqn:K3.
    - rewrite gl_one. reflexivity.
    - apply keepb_false in K3. destruct Hf3 as [Hz | Hge]; [|lra].
      rewrite Hz, gl_nil. unfold qrz. rewrite qrot_0. reflexivity. }
  rewrite gl_cons, gl_cons, H3, gq_zg, x90_full. cbn [gq fst].
  rewrite <- qmul_assoc, <- Hprod, <- H2.
  repeat apply qpm_mul; apply qpm_normalize.
Qed.

(* every threshold test of [mckay_gates] agrees with its exact counterpart.  The test
   [axis[0] == 0 and axis[1] == 0] is exact in the code itself. *)
Definition mckay_regime (n : axis3 R) (angle : R) : Prop :=
  (angle = 0 \/ ATOL <= Rabs angle) /\
  ((ax_x n <> 0 \/ ax_y n <> 0) -> angle <> 0 ->
   forall t1 t2 t3, aba_angles RNum AxZ AxX angle n = Ok (t1, t2, t3) ->
     (* the Z-X90-Z shortcut is taken, and the ZXZ angles are exact *)
     (ATOL <= Rabs (normalize_angle RNum t1) /\ normalize_angle RNum t2 = PI / 2 /\
      exact_regime AxZ AxX angle n /\ filter_exact t3)
     \/
     (* the shortcut is not taken: first Rz filtered out, or middle angle away from PI/2 *)
     ((Rabs (normalize_angle RNum t1) < ATOL \/ ATOL <= Rabs (normalize_angle RNum t2 - PI / 2)) /\
      thr_exact (normalize_angle RNum (mk_lam n angle)) /\
      thr_exact (normalize_angle RNum (mk_theta n angle)) /\
      thr_exact (normalize_angle RNum (mk_phi n angle)))).

Lemma Reqb_false x y : Reqb x y = false -> x <> y.
Proof. intros H E. apply Reqb_true in E. congruence. Qed.

Theorem mckay_gates_exact q n angle :
  unit_axis n -> - PI < angle <= PI -> - PI + ATOL <= angle -> mckay_regime n angle ->
  exists l, mckay_gates RNum q n angle = Ok l /\ qpm (gl l) (qrot n angle).
Proof.
  intros Hu Hr Hlow [Ha Hrest]. pose proof ATOL_pos as Hat.
  rewrite mckay_gates_R.
  destruct (Rltb (Rabs angle) ATOL) eqn:E0.
  { (* [] *)
    apply Rltb_true in E0. destruct Ha as [-> | Hge]; [|lra].
    exists []. split; [reflexivity|]. rewrite gl_nil, qrot_0. apply qpm_refl. }
  apply Rltb_false in E0.
  assert (Hne : angle <> 0) by (intros ->; rewrite Rabs_R0 in E0; lra).
  destruct (Reqb (ax_x n) 0 && Reqb (ax_y n) 0) eqn:E1.
  { (* [Rz] *)
    apply andb_true_iff in E1. destruct E1 as [Ex Ey]. apply Reqb_true in Ex, Ey.
    eexists. split; [reflexivity|]. apply mckay_pure_z; assumption. }
  assert (Hxy : ax_x n <> 0 \/ ax_y n <> 0).
  { apply andb_false_iff in E1. destruct E1 as [E|E]; [left|right]; apply Reqb_false; exact E. }
  destruct (aba_angles_ok n angle Hlow (proj2 Hr)) as (t1 & t2 & t3 & Hang).
  rewrite aba_gates_zg, Hang, zxz_mid_filter.
  destruct (Hrest Hxy Hne t1 t2 t3 Hang) as [(K1 & K2 & Hreg & Hf3) | (Hnot & Hl & Ht & Hp)].
  - (* shortcut *)
    assert (B1 : keepb t1 = true) by (apply keepb_true; exact K1).
    assert (B2 : keepb t2 = true).
    { apply keepb_true. rewrite K2. pose proof PI_bounds. rewrite Rabs_right by lra. unfold ATOL. lra. }
    rewrite B1, B2. cbn [andb]. rewrite K2.
    assert (E2 : Rltb (Rabs (PI / 2 - PI / 2)) ATOL = true).
    { apply Rltb_true. replace (PI / 2 - PI / 2) with 0 by ring. rewrite Rabs_R0. exact Hat. }
    rewrite E2, zxz_shortcut_list by assumption.
    eexists. split; [reflexivity|]. eapply mckay_shortcut_exact; eassumption.
  - (* McKay proper *)
    assert (E2 : Rltb (Rabs ((if keepb t1 && keepb t2 then normalize_angle RNum t2 else 0) - PI / 2)) ATOL = false).
    { apply Rltb_false. destruct (keepb t1 && keepb t2) eqn:K; [|apply half_pi_far].
      apply andb_true_iff in K. destruct K as [K1 _]. apply keepb_true in K1.
      destruct Hnot as [H|H]; [lra|exact H]. }
    rewrite E2. eexists. split; [reflexivity|].
    apply mckay_tail_exact; try assumption. apply sin_half_nz; assumption.
Qed.

(* ------------------------------------------------------------------ *)
(** * 4. the [X90; X90] branch *)

(* the five-gate product with the normalised angles *)
Lemma mckay_norm_product n angle :
  unit_axis n -> (ax_x n <> 0 \/ ax_y n <> 0) -> sin (angle / 2) <> 0 ->
  qpm (qmul (qrz (normalize_angle RNum (mk_phi n angle)))
         (qmul (qrx (PI / 2)) (qmul (qrz (normalize_angle RNum (mk_theta n angle)))
            (qmul (qrx (PI / 2)) (qrz (normalize_angle RNum (mk_lam n angle)))))))
      (qrot n angle).
Proof.
  intros Hu Hxy Hs. rewrite <- (mckay_general_exact n angle Hu Hxy Hs). unfold qrz.
  repeat apply qpm_mul; try apply qpm_refl; apply qpm_normalize.
Qed.

(* the test [lam == phi] alone only says that the axis lies in the x-z plane *)
Lemma mckay_lam_eq_phi_axis n angle :
  (ax_x n <> 0 \/ ax_y n <> 0) -> sin (angle / 2) <> 0 ->
  normalize_angle RNum (mk_lam n angle) = normalize_angle RNum (mk_phi n angle) ->
  ax_y n = 0.
Proof.
  intros Hxy Hs Heq.
  destruct (normalize_congr (mk_lam n angle)) as [k1 H1].
  destruct (normalize_congr (mk_phi n angle)) as [k2 H2].
  rewrite H1, H2 in Heq. unfold mk_lam, mk_phi in Heq.
  destruct (mk_beta_cs n angle Hxy Hs) as [Hc _].
  set (be := mk_beta n angle) in *. set (al := mk_alpha n angle) in *.
  assert (Hbe : be = - (PI / 2) + PI * IZR (k2 - k1)) by (rewrite minus_IZR; lra).
  destruct (cos_sin_kPI (k2 - k1)) as [s [_ H]]. destruct (H (- (PI / 2))) as [Hcos _].
  rewrite <- Hbe, cos_neg, cos_PI2 in Hcos.
  rewrite Hcos in Hc. unfold mk_sh in Hc.
  assert (Hy : sin (angle / 2) * ax_y n = 0) by lra.
  apply Rmult_integral in Hy. destruct Hy; [contradiction|assumption].
Qed.

(* when theta normalises to exactly 0 and lam == phi, the gate is a half turn about +x or -x,
   and [X90; X90] is exact (up to sign) *)
Theorem mckay_xx_branch_exact q n angle :
  unit_axis n -> (ax_x n <> 0 \/ ax_y n <> 0) -> sin (angle / 2) <> 0 ->
  normalize_angle RNum (mk_theta n angle) = 0 ->
  normalize_angle RNum (mk_lam n angle) = normalize_angle RNum (mk_phi n angle) ->
  qpm (gl [x90 RNum q; x90 RNum q]) (qrot n angle) /\
  cos (angle / 2) = 0 /\ ax_y n = 0 /\ ax_z n = 0 /\ (ax_x n = 1 \/ ax_x n = -1).
Proof.
  intros Hu Hxy Hs Ht Hlp.
  pose proof (mckay_norm_product n angle Hu Hxy Hs) as Hnorm.
  rewrite Ht, Hlp, rz_x90_x90_rz in Hnorm.
  assert (Hg : gl [x90 RNum q; x90 RNum q] = qrx PI).
  { rewrite gl_cons, gl_x90, <- gl_one, gl_x90. apply x90_x90. }
  rewrite Hg. split; [exact Hnorm|].
  assert (Hcomp : cos (angle / 2) = 0 /\ sin (angle / 2) * ax_y n = 0 /\ sin (angle / 2) * ax_z n = 0).
  { destruct Hnorm as [H | H];
      unfold qrx, qrot, qneg, e_axis, qw, qx, qy, qz, ax_x, ax_y, ax_z in H; cbn [fst snd] in H;
      fold (ax_x n) (ax_y n) (ax_z n) in H;
      rewrite cos_PI2, sin_PI2 in H; injection H as Hw Hx Hy Hz; repeat split; lra. }
  destruct Hcomp as (Hc & Hy & Hz).
  apply Rmult_integral in Hy. destruct Hy as [Hy|Hy]; [contradiction|].
  apply Rmult_integral in Hz. destruct Hz as [Hz|Hz]; [contradiction|].
  repeat split; try assumption.
  unfold unit_axis in Hu. rewrite Hy, Hz in Hu.
  assert (H : (ax_x n - 1) * (ax_x n + 1) = 0) by lra.
  apply Rmult_integral in H. destruct H; [left|right]; lra.
Qed.

(* without the exact regime for theta the branch is only approximately right: a half turn about
   (cos d, 0, sin d), d = ATOL/4, has lam = phi = 0 and theta = 2 d < ATOL, so the model
   answers [X90; X90] = Rx(PI), which differs from the gate by more than a global phase *)
Lemma atan2_0_pos x : 0 < x -> atan2 0 x = 0.
Proof.
  intros Hx. unfold atan2. destruct (Rlt_dec 0 x); [|contradiction].
  unfold Rdiv. rewrite Rmult_0_l. apply atan_0.
Qed.

Lemma atan2_neg_0 y : y < 0 -> atan2 y 0 = - (PI / 2).
Proof.
  intros Hy. unfold atan2.
  destruct (Rlt_dec 0 0); [lra|]. destruct (Rlt_dec 0 y); [lra|].
  destruct (Rlt_dec y 0); [reflexivity|contradiction].
Qed.

Theorem mckay_xx_branch_exact_refuted :
  exists q n angle,
    unit_axis n /\ - PI < angle <= PI /\ - PI + ATOL <= angle /\
    mckay_gates RNum q n angle = Ok [x90 RNum q; x90 RNum q] /\
    ~ qpm (gl [x90 RNum q; x90 RNum q]) (qrot n angle).
Proof.
  pose proof ATOL_pos as Hat. pose proof PI_bounds as [HP3 HP4].
  set (d := ATOL / 4).
  assert (Hd : 0 < d < / 1000000) by (unfold d, ATOL; lra).
  assert (Hsd : 0 < sin d) by (apply sin_gt_0; lra).
  assert (Hsd' : sin d < d) by (apply sin_lt_x; lra).
  assert (Hcd : 0 < cos d) by (apply cos_gt_0; lra).
  exists 0%Z, (cos d, 0, sin d), PI.
  split.
  { unfold unit_axis, ax_x, ax_y, ax_z. cbn [fst snd].
    pose proof (sin2_cos2 d) as H. unfold Rsqr in H. lra. }
  split; [lra|]. split; [unfold ATOL; lra|].
  split.
  - rewrite mckay_gates_R. cbn [ax_x ax_y ax_z fst snd].
    assert (E0 : Rltb (Rabs PI) ATOL = false).
    { apply Rltb_false. rewrite Rabs_right by lra. unfold ATOL. lra. }
    assert (E1 : Reqb (cos d) 0 = false).
    { unfold Reqb. destruct (Req_EM_T (cos d) 0); [lra|reflexivity]. }
    rewrite E0, E1. cbn [andb].
    assert (Hang : aba_angles RNum AxZ AxX PI (cos d, 0, sin d) = Ok (0, PI, 0)).
    { rewrite aba_angles_R, aba_range_check by (unfold ATOL; lra).
      cbn [axis_comp unused_axis ax_x ax_y ax_z fst snd].
      unfold pick_R. rewrite pick_R_pi_test.
      assert (E : Rltb (Rabs (sin d)) ATOL = true).
      { apply Rltb_true. rewrite Rabs_right by lra. unfold d in *. lra. }
      rewrite E, atan2_0_pos by exact Hcd.
      unfold finish_R. change (is_sin_m_negative AxZ AxX) with true. cbv iota.
      do 2 f_equal; [f_equal|]; field. }
    rewrite aba_gates_zg, Hang, zxz_mid_filter.
    assert (K : keepb 0 = false).
    { apply keepb_false. rewrite normalize_angle_0, Rabs_R0. exact Hat. }
    rewrite K. cbn [andb].
    assert (E2 : Rltb (Rabs (0 - PI / 2)) ATOL = false) by (apply Rltb_false, half_pi_far).
    rewrite E2. f_equal.
    (* the McKay angles *)
    assert (Hlam : mk_lam (cos d, 0, sin d) PI = 0 /\ mk_phi (cos d, 0, sin d) PI = 0).
    { unfold mk_lam, mk_phi, mk_beta, mk_alpha, mk_sh, mk_ch. cbn [ax_x ax_y ax_z fst snd].
      rewrite sin_PI2, cos_PI2. replace (- (1) * 0) with 0 by ring.
      rewrite !atan2_neg_0 by lra. split; field. }
    destruct Hlam as [Hlam Hphi].
    assert (Htheta : mk_theta (cos d, 0, sin d) PI = 2 * d).
    { unfold mk_theta, mk_za, mk_zb, mk_sh, mk_ch. cbn [ax_x ax_y ax_z fst snd].
      rewrite sin_PI2, cos_PI2.
      replace (0 * 0 + sin d * 1 * (sin d * 1)) with (sin d * sin d) by ring.
      replace (cos d * cos d + 0 * 0) with (cos d * cos d) by ring.
      rewrite !sqrt_square, Rabs_R1 by lra.
      unfold atan2. destruct (Rlt_dec 0 (sin d)); [|contradiction].
      replace (1 * cos d / sin d) with (tan (PI / 2 - d)).
      2:{ unfold tan. rewrite sin_shift, cos_shift. field. lra. }
      rewrite atan_tan by lra. field. }
    unfold mckay_tail. rewrite Hlam, Hphi, Htheta, normalize_angle_0.
    rewrite (normalize_id (2 * d)) by (unfold d, ATOL in *; lra).
    assert (E3 : Rltb (Rabs (2 * d)) ATOL = true).
    { apply Rltb_true. rewrite Rabs_right by lra. unfold d. lra. }
    assert (E4 : Reqb 0 0 = true) by (apply Reqb_true; reflexivity).
    rewrite E3, E4. reflexivity.
  - assert (Hg : gl [x90 RNum 0; x90 RNum 0] = qrx PI).
    { rewrite gl_cons, gl_x90, <- gl_one, gl_x90. apply x90_x90. }
    rewrite Hg. intros [H | H];
      unfold qrx, qrot, qneg, e_axis, qw, qx, qy, qz, ax_x, ax_y, ax_z in H; cbn [fst snd] in H;
      rewrite sin_PI2 in H; injection H; intros; lra.
Qed.

(* ------------------------------------------------------------------ *)
(** * the general branch alone, with the list made explicit *)

Theorem mckay_gates_general_exact q n angle :
  unit_axis n -> - PI + ATOL <= angle <= PI -> ATOL <= Rabs angle ->
  (ax_x n <> 0 \/ ax_y n <> 0) ->
  (forall t1 t2 t3, aba_angles RNum AxZ AxX angle n = Ok (t1, t2, t3) ->
     Rabs (normalize_angle RNum t1) < ATOL \/ ATOL <= Rabs (normalize_angle RNum t2 - PI / 2)) ->
  thr_exact (normalize_angle RNum (mk_lam n angle)) ->
  thr_exact (normalize_angle RNum (mk_theta n angle)) ->
  thr_exact (normalize_angle RNum (mk_phi n angle)) ->
  mckay_gates RNum q n angle = Ok (mckay_tail q n angle) /\
  qpm (gl (mckay_tail q n angle)) (qrot n angle).
Proof.
  intros Hu Hr Ha Hxy Hnot Hl Ht Hp. pose proof ATOL_pos as Hat.
  assert (Hne : angle <> 0) by (intros ->; rewrite Rabs_R0 in Ha; lra).
  split.
  - rewrite mckay_gates_R.
    assert (E0 : Rltb (Rabs angle) ATOL = false) by (apply Rltb_false; exact Ha).
    assert (E1 : Reqb (ax_x n) 0 && Reqb (ax_y n) 0 = false).
    { apply andb_false_iff. unfold Reqb.
      destruct Hxy as [H|H]; [left; destruct (Req_EM_T (ax_x n) 0)|right; destruct (Req_EM_T (ax_y n) 0)];
        try contradiction; reflexivity. }
    rewrite E0, E1.
    destruct (aba_angles_ok n angle (proj1 Hr) (proj2 Hr)) as (t1 & t2 & t3 & Hang).
    rewrite aba_gates_zg, Hang, zxz_mid_filter.
    assert (E2 : Rltb (Rabs ((if keepb t1 && keepb t2 then normalize_angle RNum t2 else 0) - PI / 2)) ATOL = false).
    { apply Rltb_false. destruct (keepb t1 && keepb t2) eqn:K; [|apply half_pi_far].
      apply andb_true_iff in K. destruct K as [K1 _]. apply keepb_true in K1.
      destruct (Hnot t1 t2 t3 Hang) as [H|H]; [lra|exact H]. }
    rewrite E2. reflexivity.
  - apply mckay_tail_exact; try assumption. apply sin_half_nz; [|exact Hne].
    pose proof ATOL_pos. lra.
Qed.

(* ------------------------------------------------------------------ *)
(** * the same as 2x2 matrices (qubit 0 of a one-qubit register) *)

Lemma rot0_zg a t : rot0 (fst (zg 0 a t)).
Proof. eexists; eexists; reflexivity. Qed.
Lemma rot0_x90 : rot0 (fst (x90 RNum 0)).
Proof. rewrite x90_full. eexists; eexists; reflexivity. Qed.
Lemma rot0_rz t : rot0 (fst (rz RNum 0 t)).
Proof. unfold rz. rewrite rot_gate_full. eexists; eexists; reflexivity. Qed.

Lemma mckay_gates_rot0 n angle l :
  mckay_gates RNum 0 n angle = Ok l -> Forall rot0 (map fst l).
Proof.
  rewrite mckay_gates_R.
  destruct (Rltb (Rabs angle) ATOL); [intros H; injection H as <-; constructor|].
  destruct (Reqb (ax_x n) 0 && Reqb (ax_y n) 0).
  { intros H; injection H as <-. repeat constructor. apply rot0_rz. }
  rewrite aba_gates_zg.
  destruct (aba_angles RNum AxZ AxX angle n) as [[[t1 t2] t3]|e]; [|discriminate].
  rewrite zxz_filter.
  destruct (Rltb _ ATOL).
  - destruct (keepb t1), (keepb t2), (keepb t3); cbn [app]; intros H; injection H as <-;
      cbn [map]; repeat constructor; try apply rot0_zg; apply rot0_x90.
  - intros H; injection H as <-. unfold mckay_tail, opt_rz.
    repeat match goal with |- context [if ?b then _ else _] => destruct b end;
      cbn [app map]; repeat constructor; try apply rot0_rz; apply rot0_x90.
Qed.

Corollary mckay_gates_exact_matrix n angle phase :
  unit_axis n -> - PI < angle <= PI -> - PI + ATOL <= angle -> mckay_regime n angle ->
  exists l,
    mckay_gates RNum 0 n angle = Ok l /\
    exists ph, gates_matrix RNum 1 (map fst l) = Ok (mscale (cis RNum ph) (can1 RNum n angle phase)).
Proof.
  intros Hu Hr Hlow Hreg.
  destruct (mckay_gates_exact 0 n angle Hu Hr Hlow Hreg) as (l & Hl & Hpm).
  exists l. split; [exact Hl|].
  unfold gates_matrix, circuit_matrix. rewrite eye2_qmat.
  rewrite circuit_rot0 by (eapply mckay_gates_rot0; exact Hl).
  fold (gl l). rewrite can1_phase. fold (mscale (cis RNum phase) (qmat (qrot n angle))).
  destruct Hpm as [-> | ->].
  - exists (- phase). rewrite mscale_mscale, cis_mul.
    replace (- phase + phase) with 0 by ring. rewrite cis_0, mscale_1. reflexivity.
  - exists (PI - phase). rewrite mscale_mscale, cis_mul.
    replace (PI - phase + phase) with PI by ring. rewrite cis_PI, qmat_neg. reflexivity.
Qed.

(* ------------------------------------------------------------------ *)
(** * the regime is inhabited: X (the [X90; X90] branch) and H (the Z-X90-Z shortcut) *)

Lemma aba_angles_X : aba_angles RNum AxZ AxX PI (1, 0, 0) = Ok (0, PI, 0).
Proof.
  pose proof ATOL_pos as Hat. pose proof PI_bounds as [HP3 HP4].
  rewrite aba_angles_R, aba_range_check by (unfold ATOL; lra).
  cbn [axis_comp unused_axis ax_x ax_y ax_z fst snd].
  unfold pick_R. rewrite pick_R_pi_test.
  assert (E : Rltb (Rabs 0) ATOL = true) by (apply Rltb_true; rewrite Rabs_R0; exact Hat).
  rewrite E, atan2_0_pos by lra.
  unfold finish_R. change (is_sin_m_negative AxZ AxX) with true. cbv iota.
  do 2 f_equal; [f_equal|]; field.
Qed.

Lemma atan2_pos_0 y : 0 < y -> atan2 y 0 = PI / 2.
Proof.
  intros Hy. unfold atan2.
  destruct (Rlt_dec 0 0); [lra|]. destruct (Rlt_dec 0 y); [reflexivity|contradiction].
Qed.

Lemma atan2_0_0 : atan2 0 0 = 0.
Proof. unfold atan2. destruct (Rlt_dec 0 0); [lra|reflexivity]. Qed.

Lemma mk_angles_X :
  mk_lam (1, 0, 0) PI = - (PI / 2) /\ mk_phi (1, 0, 0) PI = - (PI / 2) /\ mk_theta (1, 0, 0) PI = 0.
Proof.
  unfold mk_lam, mk_phi, mk_theta, mk_beta, mk_alpha, mk_za, mk_zb, mk_sh, mk_ch.
  cbn [ax_x ax_y ax_z fst snd]. rewrite sin_PI2, cos_PI2.
  replace (- (1) * 0) with 0 by ring.
  replace (0 * 0 + 0 * 1 * (0 * 1)) with 0 by ring.
  replace (1 * 1 + 0 * 0) with 1 by ring.
  rewrite sqrt_0, sqrt_1, Rabs_R1, atan2_0_0, atan2_neg_0 by lra.
  replace (1 * 1) with 1 by ring. rewrite atan2_pos_0 by lra.
  repeat split; field.
Qed.

Lemma normalize_mhalf_pi : normalize_angle RNum (- (PI / 2)) = - (PI / 2).
Proof. apply normalize_id. pose proof PI_bounds. lra. Qed.

Example mckay_regime_X : mckay_regime (1, 0, 0) PI.
Proof.
  pose proof ATOL_pos as Hat. pose proof PI_bounds as [HP3 HP4].
  split; [right; rewrite Rabs_right by lra; unfold ATOL; lra|].
  intros _ _ t1 t2 t3 Hang. rewrite aba_angles_X in Hang. injection Hang as <- <- <-.
  right. destruct mk_angles_X as (-> & -> & ->).
  rewrite normalize_angle_0, normalize_mhalf_pi.
  repeat split.
  - left. rewrite Rabs_R0. exact Hat.
  - right. rewrite Rabs_left by lra. unfold ATOL. lra.
  - left. reflexivity.
  - right. rewrite Rabs_left by lra. unfold ATOL. lra.
Qed.

Example mckay_X q :
  mckay_gates RNum q (1, 0, 0) PI = Ok [x90 RNum q; x90 RNum q] /\
  qpm (gl [x90 RNum q; x90 RNum q]) (qrot (1, 0, 0) PI).
Proof.
  pose proof ATOL_pos as Hat. pose proof PI_bounds as [HP3 HP4].
  assert (Hu : unit_axis (1, 0, 0)) by (unfold unit_axis, ax_x, ax_y, ax_z; cbn [fst snd]; ring).
  assert (Hxy : ax_x (1, 0, 0) <> 0 \/ ax_y (1, 0, 0) <> 0) by (left; cbn; lra).
  assert (Hne : PI <> 0) by lra.
  destruct mckay_regime_X as [Ha Hreg].
  assert (Htail : mckay_tail q (1, 0, 0) PI = [x90 RNum q; x90 RNum q]).
  { unfold mckay_tail. destruct mk_angles_X as (-> & -> & ->).
    rewrite normalize_angle_0, Rabs_R0.
    assert (E3 : Rltb 0 ATOL = true) by (apply Rltb_true; exact Hat).
    assert (E4 : Reqb (normalize_angle RNum (- (PI / 2))) (normalize_angle RNum (- (PI / 2))) = true)
      by (apply Reqb_true; reflexivity).
    rewrite E3, E4. reflexivity. }
  rewrite <- Htail.
  apply mckay_gates_general_exact; try assumption.
  - unfold ATOL; lra.
  - rewrite Rabs_right by lra. unfold ATOL. lra.
  - intros t1 t2 t3 Hang. destruct (Hreg Hxy Hne t1 t2 t3 Hang) as [(K1 & _) | (H & _)]; [|exact H].
    rewrite aba_angles_X in Hang. injection Hang as <- <- <-.
    rewrite normalize_angle_0, Rabs_R0 in K1. lra.
  - destruct (Hreg Hxy Hne _ _ _ aba_angles_X) as [(K1 & _) | (_ & H & _)]; [|exact H].
    rewrite normalize_angle_0, Rabs_R0 in K1. lra.
  - destruct (Hreg Hxy Hne _ _ _ aba_angles_X) as [(K1 & _) | (_ & _ & H & _)]; [|exact H].
    rewrite normalize_angle_0, Rabs_R0 in K1. lra.
  - destruct (Hreg Hxy Hne _ _ _ aba_angles_X) as [(K1 & _) | (_ & _ & _ & H)]; [|exact H].
    rewrite normalize_angle_0, Rabs_R0 in K1. lra.
Qed.

(* Hadamard: axis (1/sqrt 2, 0, 1/sqrt 2), angle PI *)
Definition h_axis : axis3 R := (1 / sqrt 2, 0, 1 / sqrt 2).

Lemma inv_sqrt2_facts : 1 / 2 < 1 / sqrt 2 < 1 /\ (1 / sqrt 2) * (1 / sqrt 2) = 1 / 2.
Proof.
  assert (Hs2 : sqrt 2 * sqrt 2 = 2) by (apply sqrt_sqrt; lra).
  assert (Hp : 0 < sqrt 2) by (apply sqrt_lt_R0; lra).
  assert (Hlt : 1 < sqrt 2 < 2) by (split; nra).
  assert (Hr : (1 / sqrt 2) * sqrt 2 = 1) by (field; lra).
  set (r := 1 / sqrt 2) in *.
  assert (Hr0 : 0 < r) by (unfold r; apply Rdiv_lt_0_compat; lra).
  repeat split; nra.
Qed.

Lemma h_axis_unit : unit_axis h_axis.
Proof.
  unfold unit_axis, h_axis, ax_x, ax_y, ax_z. cbn [fst snd].
  destruct inv_sqrt2_facts as [_ H]. rewrite H. field.
Qed.

Lemma aba_angles_H : aba_angles RNum AxZ AxX PI h_axis = Ok (PI / 2, PI / 2, PI / 2).
Proof.
  pose proof ATOL_pos as Hat. pose proof PI_bounds as [HP3 HP4].
  destruct inv_sqrt2_facts as [Hr _].
  rewrite aba_angles_R, aba_range_check by (unfold ATOL; lra).
  unfold h_axis. cbn [axis_comp unused_axis ax_x ax_y ax_z fst snd].
  unfold pick_R. rewrite pick_R_pi_test.
  assert (E : Rltb (Rabs (1 / sqrt 2)) ATOL = false).
  { apply Rltb_false. rewrite Rabs_right by lra. unfold ATOL. lra. }
  rewrite E. cbn [andb]. rewrite atan2_0_pos by lra.
  rewrite <- cos_PI4 at 1. rewrite acos_cos by lra.
  unfold finish_R. change (is_sin_m_negative AxZ AxX) with true. cbv iota.
  do 2 f_equal; [f_equal|]; field.
Qed.

Example mckay_regime_H : mckay_regime h_axis PI.
Proof.
  pose proof ATOL_pos as Hat. pose proof PI_bounds as [HP3 HP4].
  destruct inv_sqrt2_facts as [Hr _].
  assert (Hhalf : ATOL <= Rabs (PI / 2)) by (rewrite Rabs_right by lra; unfold ATOL; lra).
  split; [right; rewrite Rabs_right by lra; unfold ATOL; lra|].
  intros _ _ t1 t2 t3 Hang. rewrite aba_angles_H in Hang. injection Hang as <- <- <-.
  left. rewrite normalize_half_pi.
  assert (Ha : ATOL <= Rabs (1 / sqrt 2)) by (rewrite Rabs_right by lra; unfold ATOL; lra).
  split; [exact Hhalf|]. split; [reflexivity|]. split.
  - unfold exact_regime, h_axis. cbn [axis_comp unused_axis ax_x ax_y ax_z fst snd].
    split; [left; reflexivity|]. split.
    + intros _. split; [right; exact Ha | right; left; exact Ha].
    + intros H. contradiction H. reflexivity.
  - right. rewrite normalize_half_pi. exact Hhalf.
Qed.

Example mckay_H q :
  mckay_gates RNum q h_axis PI = Ok [rz RNum q (PI / 2); x90 RNum q; rz RNum q (PI / 2)] /\
  qpm (gl [rz RNum q (PI / 2); x90 RNum q; rz RNum q (PI / 2)]) (qrot h_axis PI).
Proof.
  pose proof ATOL_pos as Hat. pose proof PI_bounds as [HP3 HP4].
  destruct inv_sqrt2_facts as [Hr _].
  assert (Hlist : mckay_gates RNum q h_axis PI = Ok [rz RNum q (PI / 2); x90 RNum q; rz RNum q (PI / 2)]).
  { rewrite mckay_gates_R. unfold h_axis at 1 2. cbn [ax_x ax_y ax_z fst snd].
    assert (E0 : Rltb (Rabs PI) ATOL = false).
    { apply Rltb_false. rewrite Rabs_right by lra. unfold ATOL. lra. }
    assert (E1 : Reqb (1 / sqrt 2) 0 = false).
    { unfold Reqb. destruct (Req_EM_T (1 / sqrt 2) 0); [lra|reflexivity]. }
    rewrite E0, E1. cbn [andb].
    rewrite aba_gates_zg, aba_angles_H, zxz_mid_filter.
    assert (K : keepb (PI / 2) = true).
    { apply keepb_true. rewrite normalize_half_pi, Rabs_right by lra. unfold ATOL. lra. }
    rewrite K. cbn [andb]. rewrite normalize_half_pi.
    assert (E2 : Rltb (Rabs (PI / 2 - PI / 2)) ATOL = true).
    { apply Rltb_true. replace (PI / 2 - PI / 2) with 0 by ring. rewrite Rabs_R0. exact Hat. }
    rewrite E2, zxz_shortcut_list, K by exact K.
    unfold rz. rewrite !rot_gate_full. reflexivity. }
  split; [exact Hlist|].
  destruct (mckay_gates_exact q h_axis PI h_axis_unit) as (l & Hl & Hpm).
  - lra.
  - unfold ATOL; lra.
  - exact mckay_regime_H.
  - rewrite Hlist in Hl. injection Hl as <-. exact Hpm.
Qed.

Print Assumptions mckay_product.
Print Assumptions mckay_general_exact.
Print Assumptions mckay_tail_exact.
Print Assumptions mckay_shortcut_exact.
Print Assumptions mckay_gates_exact.
Print Assumptions mckay_xx_branch_exact.
Print Assumptions mckay_xx_branch_exact_refuted.
Print Assumptions mckay_gates_general_exact.
Print Assumptions mckay_gates_exact_matrix.
Print Assumptions mckay_X.
Print Assumptions mckay_H.
