(* ABAP.v — exactness of the A-B-A decomposition angles computed by the model
   [aba_angles] (Model/ABA.v, i.e. ABADecomposer.get_decomposition_angles, the
   repaired version with m = 2 atan2(c, b)) over the reals:
     R_A(theta3) R_B(theta2) R_A(theta1) = R_n(alpha)   as unit quaternions,
   whenever every ATOL threshold test of the model agrees with its exact
   counterpart ([exact_regime]); then the lifting to the gate list returned by
   [aba_gates] and to the 2x2 matrix of the one-qubit circuit ([gates_matrix]).
   [aba_angles_regime_needed] shows that the regime hypothesis cannot be dropped. *)
From Coq Require Import Reals ZArith List Bool Lra Lia.
Import ListNotations.
From OSQ Require Import Num IR Construct Matrix ABA RTrig RNum SU2.
Open Scope R_scope.

Definition ATOL : R := 1 / 10000000.

Lemma ATOL_pos : 0 < ATOL.
Proof. unfold ATOL. lra. Qed.

(* ------------------------------------------------------------------ *)
(* the model at RNum, written with the operations of R *)

Definition Rclamp (x : R) : R :=
  let y := if Rltb 1 x then 1 else x in if Rltb y (- (1)) then - (1) else y.

Definition pick_R (a b c alpha : R) : R * R * R :=
  if Rltb (Rabs (alpha - PI)) ATOL then
    if Rltb (Rabs a) ATOL then (0, PI, 2 * atan2 c b)
    else
      let theta2 := 2 * acos a in
      if Rltb (Rabs b) ATOL && Rltb (Rabs c) ATOL then (PI, theta2, PI)
      else (PI, theta2, 2 * atan2 c b)
  else
    let p := 2 * atan2 (a * sin (alpha / 2)) (cos (alpha / 2)) in
    let t := a * tan (alpha / 2) in
    let theta2 := Rcopysign (2 * acos (Rclamp (cos (alpha / 2) * sqrt (1 + t * t)))) alpha in
    if Rltb (Rabs (sin (theta2 / 2))) ATOL then (p, theta2, p)
    else (p, theta2, 2 * atan2 c b).

Definition finish_R (neg : bool) (pm : R * R * R) : R * R * R :=
  let '(p, theta2, m) := pm in
  let m := if neg then m * (- (1)) else m in
  let theta1 := (p + m) / 2 in
  (theta1, theta2, p - theta1).

Lemma aba_angles_R ia ib alpha ax :
  aba_angles RNum ia ib alpha ax =
  if negb (Rleb (- PI + ATOL) alpha && Rleb alpha (PI + ATOL)) then Err EValue
  else Ok (finish_R (is_sin_m_negative ia ib)
             (pick_R (axis_comp ax ia) (axis_comp ax ib) (axis_comp ax (unused_axis ia ib)) alpha)).
Proof.
  unfold aba_angles, clamp1, nmax, nmin, atol, pi.
  cbn [nofZ nadd nsub nmul ndiv nneg nabs nsqrt nsin ncos ntan nacos natan2 npi
       nltb nleb neqb ncopysign RNum].
  change (1 / 10000000) with ATOL.
  destruct (negb _); [reflexivity|].
  match goal with |- match ?X with _ => _ end = _ => set (pk := X) end.
  change (pick_R (axis_comp ax ia) (axis_comp ax ib) (axis_comp ax (unused_axis ia ib)) alpha) with pk.
  destruct pk as [[p t] m]. reflexivity.
Qed.

(* ------------------------------------------------------------------ *)
(* helpers *)

Lemma Rclamp_id x : -1 <= x <= 1 -> Rclamp x = x.
Proof.
  intros H. unfold Rclamp.
  destruct (Rltb 1 x) eqn:E1; [apply Rltb_true in E1; lra|].
  destruct (Rltb x (- (1))) eqn:E2; [apply Rltb_true in E2; lra|]. reflexivity.
Qed.

Lemma copysign_half x y : 0 <= x -> Rcopysign (2 * x) y / 2 = if Rle_dec 0 y then x else - x.
Proof.
  intros Hx. unfold Rcopysign. rewrite Rabs_right by lra. destruct (Rle_dec 0 y); field.
Qed.

(* m / 2 = atan2 c b *)
Lemma rho_pos_nz b c : 0 < sqrt (b * b + c * c) -> b <> 0 \/ c <> 0.
Proof.
  intros H. destruct (Req_dec b 0) as [Hb|Hb]; [right|left; exact Hb].
  intros Hc. subst b c. replace (0 * 0 + 0 * 0) with 0 in H by ring. rewrite sqrt_0 in H. lra.
Qed.

Lemma cos_half_m b c : 0 < sqrt (b * b + c * c) -> cos (2 * atan2 c b / 2) = b / sqrt (b * b + c * c).
Proof.
  intros H. replace (2 * atan2 c b / 2) with (atan2 c b) by field.
  apply cos_atan2, rho_pos_nz, H.
Qed.

Lemma sin_half_m b c : 0 < sqrt (b * b + c * c) -> sin (2 * atan2 c b / 2) = c / sqrt (b * b + c * c).
Proof.
  intros H. replace (2 * atan2 c b / 2) with (atan2 c b) by field.
  apply sin_atan2, rho_pos_nz, H.
Qed.

(* the four component equations: W, A, B, C *)
Definition abc_eqs (a b c alpha p th2 m : R) : Prop :=
  cos (th2 / 2) * cos (p / 2) = cos (alpha / 2) /\
  cos (th2 / 2) * sin (p / 2) = sin (alpha / 2) * a /\
  sin (th2 / 2) * cos (m / 2) = sin (alpha / 2) * b /\
  sin (th2 / 2) * sin (m / 2) = sin (alpha / 2) * c.

Lemma aba_finish ia ib ax alpha p th2 m t1 t2 t3 :
  ia <> ib ->
  abc_eqs (axis_comp ax ia) (axis_comp ax ib) (axis_comp ax (unused_axis ia ib)) alpha p th2 m ->
  finish_R (is_sin_m_negative ia ib) (p, th2, m) = (t1, t2, t3) ->
  qmul (qrot (e_axis ia) t3) (qmul (qrot (e_axis ib) t2) (qrot (e_axis ia) t1)) = qrot ax alpha.
Proof.
  intros Hab (HW & HA & HB & HC) Hf.
  rewrite (aba_product ia ib t1 t2 t3 Hab), (qrot_qabc ia ib ax alpha Hab).
  unfold finish_R, sigma in *. destruct (is_sin_m_negative ia ib).
  - injection Hf as <- <- <-.
    replace (((p + m * - (1)) / 2 + (p - (p + m * - (1)) / 2)) / 2) with (p / 2) by field.
    replace (((p + m * - (1)) / 2 - (p - (p + m * - (1)) / 2)) / 2) with (- (m / 2)) by field.
    rewrite cos_neg, sin_neg, HW, HA, HB.
    replace (- (1) * (sin (th2 / 2) * - sin (m / 2))) with (sin (th2 / 2) * sin (m / 2)) by ring.
    rewrite HC. reflexivity.
  - injection Hf as <- <- <-.
    replace (((p + m) / 2 + (p - (p + m) / 2)) / 2) with (p / 2) by field.
    replace (((p + m) / 2 - (p - (p + m) / 2)) / 2) with (m / 2) by field.
    rewrite HW, HA, HB.
    replace (- -1 * (sin (th2 / 2) * sin (m / 2))) with (sin (th2 / 2) * sin (m / 2)) by ring.
    rewrite HC. reflexivity.
Qed.

(* ------------------------------------------------------------------ *)
(* generic branch: - PI < alpha < PI *)

Section Generic.
Variables a b c alpha : R.
Hypothesis Hunit : a * a + b * b + c * c = 1.
Hypothesis Halpha : - PI < alpha < PI.

Local Notation k := (cos (alpha / 2)).
Local Notation s := (sin (alpha / 2)).
Local Notation r := (sqrt (k * k + (a * s) * (a * s))).
Local Notation h := (atan2 (a * s) k).
Local Notation rho := (sqrt (b * b + c * c)).

Lemma k_pos : 0 < k.
Proof. apply cos_gt_0; lra. Qed.

Lemma ks1 : k * k + s * s = 1.
Proof. pose proof (sin2_cos2 (alpha / 2)) as H. unfold Rsqr in H. lra. Qed.

Lemma r_pos : 0 < r.
Proof. apply sqrt_lt_R0. pose proof k_pos. nra. Qed.

Lemma r_sq : r * r = k * k + (a * s) * (a * s).
Proof. apply sqrt_sqrt. nra. Qed.

Lemma a_le1 : a * a <= 1.
Proof. nra. Qed.

Lemma r_le1 : r <= 1.
Proof.
  pose proof r_sq. pose proof ks1. pose proof a_le1. pose proof r_pos.
  assert (r * r <= 1) by nra. nra.
Qed.

Lemma cos_h : cos h = k / r.
Proof. rewrite cos_atan2 by (left; pose proof k_pos; lra). reflexivity. Qed.
Lemma sin_h : sin h = a * s / r.
Proof. rewrite sin_atan2 by (left; pose proof k_pos; lra). reflexivity. Qed.

Lemma one_minus_rr : 1 - r * r = (s * s) * (b * b + c * c).
Proof. rewrite r_sq. pose proof ks1. nra. Qed.

Lemma sin_acos_r : sin (acos r) = Rabs s * rho.
Proof.
  rewrite sin_acos by (pose proof r_pos; pose proof r_le1; lra).
  unfold Rsqr. rewrite one_minus_rr. rewrite sqrt_mult by nra.
  replace (s * s) with (Rsqr s) by (unfold Rsqr; ring). now rewrite sqrt_Rsqr_abs.
Qed.

Lemma cos_acos_r : cos (acos r) = r.
Proof. apply cos_acos. pose proof r_pos; pose proof r_le1; lra. Qed.

Lemma sgn_s : (0 <= alpha -> 0 <= s) /\ (alpha < 0 -> s < 0).
Proof.
  split; intro.
  - apply sin_ge_0; lra.
  - apply sin_lt_0_var; lra.
Qed.

(* theta2 / 2 *)
Definition T2 : R := if Rle_dec 0 alpha then acos r else - acos r.

Lemma sin_T2 : sin T2 = s * rho.
Proof.
  unfold T2. destruct sgn_s as [Hp Hn]. destruct (Rle_dec 0 alpha).
  - rewrite sin_acos_r. rewrite Rabs_right; [ring|]. apply Rle_ge; auto.
  - rewrite sin_neg, sin_acos_r. rewrite Rabs_left by (apply Hn; lra). ring.
Qed.
Lemma cos_T2 : cos T2 = r.
Proof. unfold T2. destruct (Rle_dec 0 alpha); [|rewrite cos_neg]; apply cos_acos_r. Qed.

Lemma comp_W : cos T2 * cos h = k.
Proof. rewrite cos_T2, cos_h. field. pose proof r_pos; lra. Qed.
Lemma comp_A : cos T2 * sin h = s * a.
Proof. rewrite cos_T2, sin_h. field. pose proof r_pos; lra. Qed.

(* the model's expression for cos(theta2/2) *)
Lemma model_arg1 : k * sqrt (1 + a * tan (alpha / 2) * (a * tan (alpha / 2))) = r.
Proof.
  pose proof k_pos as Hk. unfold tan.
  replace (1 + a * (s / k) * (a * (s / k))) with ((k * k + a * s * (a * s)) / (k * k)) by (field; lra).
  rewrite sqrt_div_alt by nra. rewrite (sqrt_square k) by lra. field. lra.
Qed.

Local Notation TH2 :=
  (Rcopysign (2 * acos (Rclamp (k * sqrt (1 + a * tan (alpha / 2) * (a * tan (alpha / 2)))))) alpha).

Lemma TH2_half : TH2 / 2 = T2.
Proof.
  rewrite model_arg1. rewrite Rclamp_id by (pose proof r_pos; pose proof r_le1; lra).
  rewrite copysign_half by apply acos_bound. reflexivity.
Qed.

Lemma rho_nonneg : 0 <= rho.
Proof. apply sqrt_pos. Qed.

Theorem generic_pick :
  ATOL <= Rabs (alpha - PI) ->
  s = 0 \/ b * b + c * c = 0 \/ ATOL <= Rabs s * rho ->
  exists p th2 m, pick_R a b c alpha = (p, th2, m) /\ abc_eqs a b c alpha p th2 m.
Proof.
  intros Hfar Hreg.
  assert (E0 : Rltb (Rabs (alpha - PI)) ATOL = false) by (apply Rltb_false; lra).
  unfold pick_R. rewrite E0. cbv zeta. rewrite TH2_half, sin_T2.
  pose proof rho_nonneg as Hrho0. pose proof ATOL_pos as Hat.
  assert (Habs : Rabs (s * rho) = Rabs s * rho) by (rewrite Rabs_mult, (Rabs_right rho) by lra; reflexivity).
  assert (Hcases : s * rho = 0 \/ ATOL <= Rabs s * rho).
  { destruct Hreg as [Hs | [Hbc | Hge]]; [left; rewrite Hs; ring | left; rewrite Hbc, sqrt_0; ring | right; exact Hge]. }
  destruct Hcases as [Hz | Hge].
  - (* sin(theta2/2) = 0 : m := p *)
    assert (E1 : Rltb (Rabs (s * rho)) ATOL = true) by (apply Rltb_true; rewrite Hz, Rabs_R0; exact Hat).
    rewrite E1. do 3 eexists. split; [reflexivity|].
    unfold abc_eqs. rewrite TH2_half.
    replace (2 * h / 2) with h by field.
    rewrite sin_T2, Hz.
    assert (Hsb : s * b = 0 /\ s * c = 0).
    { destruct (Req_dec s 0) as [Hs|Hs]; [rewrite Hs; split; ring|].
      assert (Hr0 : rho = 0) by (apply Rmult_integral in Hz; destruct Hz; [contradiction|assumption]).
      assert (Hq : rho * rho = b * b + c * c) by (apply sqrt_sqrt; nra).
      rewrite Hr0 in Hq. assert (b = 0) by nra. assert (c = 0) by nra. subst b c. split; ring. }
    destruct Hsb as [-> ->].
    repeat split; [apply comp_W | apply comp_A | ring | ring].
  - (* sin(theta2/2) <> 0 *)
    assert (E1 : Rltb (Rabs (s * rho)) ATOL = false) by (apply Rltb_false; lra).
    rewrite E1. do 3 eexists. split; [reflexivity|].
    assert (Hs : s <> 0) by (intros Hs; rewrite Hs, Rabs_R0 in Hge; lra).
    assert (Hrho : 0 < rho).
    { destruct (Rle_lt_or_eq_dec _ _ Hrho0) as [?|Hr0]; [assumption|]. rewrite <- Hr0 in Hge. lra. }
    unfold abc_eqs. rewrite TH2_half.
    replace (2 * h / 2) with h by field.
    rewrite cos_half_m, sin_half_m by assumption.
    repeat split; [apply comp_W | apply comp_A | | ].
    + rewrite sin_T2. field. lra.
    + rewrite sin_T2. field. lra.
Qed.
End Generic.

(* ------------------------------------------------------------------ *)
(* alpha = PI *)

Section PiBranch.
Variables a b c : R.
Hypothesis Hunit : a * a + b * b + c * c = 1.

Lemma pick_R_pi_test : Rltb (Rabs (PI - PI)) ATOL = true.
Proof. apply Rltb_true. replace (PI - PI) with 0 by ring. rewrite Rabs_R0. apply ATOL_pos. Qed.

(* (iii) a = 0 *)
Lemma pi_pick_a0 :
  a = 0 ->
  exists p th2 m, pick_R a b c PI = (p, th2, m) /\ abc_eqs a b c PI p th2 m.
Proof.
  intros Ha. unfold pick_R. rewrite pick_R_pi_test.
  assert (E1 : Rltb (Rabs a) ATOL = true) by (apply Rltb_true; rewrite Ha, Rabs_R0; apply ATOL_pos).
  rewrite E1. do 3 eexists. split; [reflexivity|].
  assert (Hbc : b * b + c * c = 1) by (rewrite Ha in Hunit; lra).
  unfold abc_eqs. rewrite cos_PI2, sin_PI2. repeat split; try (rewrite ?Ha; ring).
  - rewrite cos_half_m by (rewrite Hbc, sqrt_1; lra). rewrite Hbc, sqrt_1. field.
  - rewrite sin_half_m by (rewrite Hbc, sqrt_1; lra). rewrite Hbc, sqrt_1. field.
Qed.

(* (iv) b = c = 0, i.e. |a| = 1 *)
Lemma pi_pick_a1 :
  b = 0 -> c = 0 ->
  exists p th2 m, pick_R a b c PI = (p, th2, m) /\ abc_eqs a b c PI p th2 m.
Proof.
  intros Hb Hc. unfold pick_R. rewrite pick_R_pi_test. pose proof ATOL_pos as Hat.
  assert (Haa : a * a = 1) by (rewrite Hb, Hc in Hunit; lra).
  assert (Hra : Rabs a = 1) by (unfold Rabs; destruct (Rcase_abs a); nra).
  assert (E1 : Rltb (Rabs a) ATOL = false) by (apply Rltb_false; rewrite Hra; unfold ATOL; lra).
  rewrite E1. cbv zeta.
  assert (E2 : Rltb (Rabs b) ATOL && Rltb (Rabs c) ATOL = true).
  { apply andb_true_iff. split; apply Rltb_true; rewrite ?Hb, ?Hc, Rabs_R0; exact Hat. }
  rewrite E2. do 3 eexists. split; [reflexivity|].
  assert (Ha1 : -1 <= a <= 1) by (split; nra).
  unfold abc_eqs. replace (2 * acos a / 2) with (acos a) by field.
  rewrite cos_PI2, sin_PI2, cos_acos, sin_acos by exact Ha1.
  replace (1 - a²) with 0 by (unfold Rsqr; lra). rewrite sqrt_0, Hb, Hc.
  repeat split; ring.
Qed.

(* (v) 0 < |a| < 1 *)
Lemma pi_pick_gen :
  ATOL <= Rabs a -> ATOL <= Rabs b \/ ATOL <= Rabs c ->
  exists p th2 m, pick_R a b c PI = (p, th2, m) /\ abc_eqs a b c PI p th2 m.
Proof.
  intros Ha Hbc. unfold pick_R. rewrite pick_R_pi_test. pose proof ATOL_pos as Hat.
  assert (E1 : Rltb (Rabs a) ATOL = false) by (apply Rltb_false; lra).
  rewrite E1. cbv zeta.
  assert (E2 : Rltb (Rabs b) ATOL && Rltb (Rabs c) ATOL = false).
  { apply andb_false_iff. destruct Hbc; [left|right]; apply Rltb_false; lra. }
  rewrite E2. do 3 eexists. split; [reflexivity|].
  assert (Haa : 0 < b * b + c * c).
  { destruct Hbc as [H|H].
    - assert (b <> 0) by (intros ->; rewrite Rabs_R0 in H; lra).
      assert (0 < b * b) by (destruct (Rtotal_order b 0) as [?|[?|?]]; [nra|contradiction|nra]). nra.
    - assert (c <> 0) by (intros ->; rewrite Rabs_R0 in H; lra).
      assert (0 < c * c) by (destruct (Rtotal_order c 0) as [?|[?|?]]; [nra|contradiction|nra]). nra. }
  assert (Ha1 : -1 <= a <= 1) by (split; nra).
  assert (Hrho : 0 < sqrt (b * b + c * c)) by (apply sqrt_lt_R0; lra).
  pose proof (cos_half_m b c Hrho) as Hcm.
  pose proof (sin_half_m b c Hrho) as Hsm.
  assert (Hsa : sin (acos a) = sqrt (b * b + c * c)).
  { rewrite sin_acos by exact Ha1. f_equal. unfold Rsqr. lra. }
  set (rho := sqrt (b * b + c * c)) in *.
  unfold abc_eqs. replace (2 * acos a / 2) with (acos a) by field.
  rewrite cos_PI2, sin_PI2, cos_acos, Hsa by exact Ha1.
  repeat split; try ring.
  - rewrite Hcm. field. lra.
  - rewrite Hsm. field. lra.
Qed.

Theorem pi_pick :
  a = 0 \/ ATOL <= Rabs a ->
  (b = 0 /\ c = 0) \/ ATOL <= Rabs b \/ ATOL <= Rabs c ->
  exists p th2 m, pick_R a b c PI = (p, th2, m) /\ abc_eqs a b c PI p th2 m.
Proof.
  intros [Ha0 | Hage] H1.
  - apply pi_pick_a0; assumption.
  - destruct H1 as [[Hb Hc] | Hbc].
    + apply pi_pick_a1; assumption.
    + apply pi_pick_gen; assumption.
Qed.
End PiBranch.

(* ------------------------------------------------------------------ *)
(* the theorem about the model *)

(* every threshold test of the model agrees with its exact counterpart *)
Definition exact_regime (ia ib : axis_id) (alpha : R) (ax : axis3 R) : Prop :=
  let a := axis_comp ax ia in
  let b := axis_comp ax ib in
  let c := axis_comp ax (unused_axis ia ib) in
  (alpha = PI \/ ATOL <= Rabs (alpha - PI)) /\
  (alpha = PI ->
     (a = 0 \/ ATOL <= Rabs a) /\
     ((b = 0 /\ c = 0) \/ ATOL <= Rabs b \/ ATOL <= Rabs c)) /\
  (alpha <> PI ->
     sin (alpha / 2) = 0 \/ b * b + c * c = 0 \/
     ATOL <= Rabs (sin (alpha / 2)) * sqrt (b * b + c * c)).

Lemma unit_axis_abc ia ib (ax : axis3 R) :
  ia <> ib -> unit_axis ax ->
  axis_comp ax ia * axis_comp ax ia + axis_comp ax ib * axis_comp ax ib +
  axis_comp ax (unused_axis ia ib) * axis_comp ax (unused_axis ia ib) = 1.
Proof.
  unfold unit_axis. intros Hab Hu.
  destruct ia, ib; try congruence; cbn [axis_comp unused_axis]; lra.
Qed.

Lemma aba_range_check alpha :
  - PI + ATOL <= alpha -> alpha <= PI ->
  negb (Rleb (- PI + ATOL) alpha && Rleb alpha (PI + ATOL)) = false.
Proof.
  intros H1 H2. pose proof ATOL_pos.
  assert (E1 : Rleb (- PI + ATOL) alpha = true) by (apply Rleb_true; lra).
  assert (E2 : Rleb alpha (PI + ATOL) = true) by (apply Rleb_true; lra).
  rewrite E1, E2. reflexivity.
Qed.

Lemma aba_pick_exact ia ib alpha ax :
  ia <> ib -> unit_axis ax -> - PI < alpha <= PI -> exact_regime ia ib alpha ax ->
  exists p th2 m,
    pick_R (axis_comp ax ia) (axis_comp ax ib) (axis_comp ax (unused_axis ia ib)) alpha = (p, th2, m) /\
    abc_eqs (axis_comp ax ia) (axis_comp ax ib) (axis_comp ax (unused_axis ia ib)) alpha p th2 m.
Proof.
  intros Hab Hu Hrange (Hpi & Hregpi & Hreggen).
  pose proof (unit_axis_abc ia ib ax Hab Hu) as Habc.
  destruct (Req_dec alpha PI) as [Heq | Hne].
  - subst alpha. destruct (Hregpi eq_refl) as [H0 H1].
    apply pi_pick; assumption.
  - destruct Hpi as [Heq | Hfar]; [contradiction|].
    apply generic_pick; try assumption; [lra | apply Hreggen; assumption].
Qed.

(* the strong form: in the exact regime the product is R_n(alpha) itself, never its negative *)
Theorem aba_angles_exact_strong ia ib alpha ax :
  ia <> ib -> unit_axis ax -> - PI < alpha <= PI -> - PI + ATOL <= alpha ->
  exact_regime ia ib alpha ax ->
  exists t1 t2 t3,
    aba_angles RNum ia ib alpha ax = Ok (t1, t2, t3) /\
    qmul (qrot (e_axis ia) t3) (qmul (qrot (e_axis ib) t2) (qrot (e_axis ia) t1)) = qrot ax alpha.
Proof.
  intros Hab Hu Hrange Hlow Hreg.
  destruct (aba_pick_exact ia ib alpha ax Hab Hu Hrange Hreg) as (p & th2 & m & Hpick & Heqs).
  rewrite aba_angles_R, aba_range_check by lra. rewrite Hpick.
  destruct (finish_R (is_sin_m_negative ia ib) (p, th2, m)) as [[t1 t2] t3] eqn:Hf.
  exists t1, t2, t3. split; [reflexivity|].
  eapply aba_finish; eassumption.
Qed.

Theorem aba_angles_exact ia ib alpha ax :
  ia <> ib -> unit_axis ax -> - PI < alpha <= PI -> - PI + ATOL <= alpha ->
  exact_regime ia ib alpha ax ->
  exists t1 t2 t3,
    aba_angles RNum ia ib alpha ax = Ok (t1, t2, t3) /\
    (qmul (qrot (e_axis ia) t3) (qmul (qrot (e_axis ib) t2) (qrot (e_axis ia) t1)) = qrot ax alpha \/
     qmul (qrot (e_axis ia) t3) (qmul (qrot (e_axis ib) t2) (qrot (e_axis ia) t1)) = qneg (qrot ax alpha)).
Proof.
  intros Hab Hu Hrange Hlow Hreg.
  destruct (aba_angles_exact_strong ia ib alpha ax Hab Hu Hrange Hlow Hreg) as (t1 & t2 & t3 & H1 & H2).
  exists t1, t2, t3. split; [exact H1 | left; exact H2].
Qed.

(* the same as 2x2 complex matrices, in the representation of [can1] *)
Corollary aba_angles_exact_matrix ia ib alpha ax :
  ia <> ib -> unit_axis ax -> - PI < alpha <= PI -> - PI + ATOL <= alpha ->
  exact_regime ia ib alpha ax ->
  exists t1 t2 t3,
    aba_angles RNum ia ib alpha ax = Ok (t1, t2, t3) /\
    mmul RNum (can1 RNum (e_axis ia) t3 0)
      (mmul RNum (can1 RNum (e_axis ib) t2 0) (can1 RNum (e_axis ia) t1 0)) = can1 RNum ax alpha 0.
Proof.
  intros Hab Hu Hrange Hlow Hreg.
  destruct (aba_angles_exact_strong ia ib alpha ax Hab Hu Hrange Hlow Hreg) as (t1 & t2 & t3 & H1 & H2).
  exists t1, t2, t3. split; [exact H1|].
  rewrite !can1_is_qmat, !qmat_mul, H2. reflexivity.
Qed.


(* ------------------------------------------------------------------ *)
(* lifting to gates *)

(* the rotation gates built by the decomposer *)
Lemma rot_gate_R a q theta :
  fst (rot_gate RNum a q theta) =
  BSR q (mk_axis RNum (DefaultTable.zaxis RNum (match a with AxX => (1, 0, 0) | AxY => (0, 1, 0) | AxZ => (0, 0, 1) end)%Z))
      (normalize_angle RNum theta) (normalize_angle RNum 0).
Proof. destruct a; reflexivity. Qed.

Lemma mk_axis_e a :
  mk_axis RNum (DefaultTable.zaxis RNum (match a with AxX => (1, 0, 0) | AxY => (0, 1, 0) | AxZ => (0, 0, 1) end)%Z) = e_axis a.
Proof.
  destruct a; unfold mk_axis, norm3, DefaultTable.zaxis, e_axis, ax_x, ax_y, ax_z; cbn [fst snd];
    cbn [nofZ nadd nsub nmul ndiv nneg nsqrt RNum].
  - replace (1 * 1 + 0 * 0 + 0 * 0) with 1 by ring. rewrite sqrt_1.
    apply f_equal2; [apply f_equal2|]; field.
  - replace (0 * 0 + 1 * 1 + 0 * 0) with 1 by ring. rewrite sqrt_1.
    apply f_equal2; [apply f_equal2|]; field.
  - replace (0 * 0 + 0 * 0 + 1 * 1) with 1 by ring. rewrite sqrt_1.
    apply f_equal2; [apply f_equal2|]; field.
Qed.

(* normalize_angle over R subtracts a multiple of 2 PI *)
Lemma normalize_angle_R x :
  normalize_angle RNum x =
  let t := x - 2 * PI * (Rfloor (x / (2 * PI)) + 1) in
  if Rltb t (- PI + ATOL) then t + 2 * PI else if Rltb PI t then t - 2 * PI else t.
Proof. reflexivity. Qed.

Lemma normalize_angle_shift x : exists j : Z, normalize_angle RNum x = x + 2 * PI * IZR j.
Proof.
  rewrite normalize_angle_R. cbv zeta. unfold Rfloor.
  set (F := Int_part (x / (2 * PI))).
  destruct (Rltb _ _).
  - exists (- F)%Z. rewrite opp_IZR. ring.
  - destruct (Rltb _ _).
    + exists (- F - 2)%Z. rewrite minus_IZR, opp_IZR. ring.
    + exists (- F - 1)%Z. rewrite minus_IZR, opp_IZR. ring.
Qed.

Lemma Rfloor_0 : Rfloor 0 = 0.
Proof.
  pose proof (Rfloor_spec 0) as [H1 H2]. unfold Rfloor in *.
  set (z := Int_part 0) in *.
  assert (z <= 0)%Z by (apply le_IZR; exact H1).
  assert (0 < z + 1)%Z by (apply lt_IZR; rewrite plus_IZR; exact H2).
  replace z with 0%Z by lia. reflexivity.
Qed.

Lemma normalize_angle_0 : normalize_angle RNum 0 = 0.
Proof.
  rewrite normalize_angle_R. cbv zeta.
  replace (0 / (2 * PI)) with 0 by (unfold Rdiv; ring). rewrite Rfloor_0.
  pose proof PI_bounds as [HP _].
  assert (E : Rltb (0 - 2 * PI * (0 + 1)) (- PI + ATOL) = true) by (apply Rltb_true; unfold ATOL; lra).
  rewrite E. ring.
Qed.

Lemma qrot_shift_nat n x (k : nat) :
  qrot n (x + 2 * PI * INR k) = qrot n x \/ qrot n (x + 2 * PI * INR k) = qneg (qrot n x).
Proof.
  induction k as [|k IH].
  - left. f_equal. cbn [INR]. ring.
  - rewrite S_INR. replace (x + 2 * PI * (INR k + 1)) with ((x + 2 * PI * INR k) + 2 * PI) by ring.
    rewrite qrot_2PI. destruct IH as [-> | ->]; [right; reflexivity | left; apply qneg_involutive].
Qed.

Lemma qrot_shift n x (j : Z) :
  qrot n (x + 2 * PI * IZR j) = qrot n x \/ qrot n (x + 2 * PI * IZR j) = qneg (qrot n x).
Proof.
  destruct (Z_le_gt_dec 0 j) as [Hj | Hj].
  - rewrite <- (Z2Nat.id j Hj), <- INR_IZR_INZ. apply qrot_shift_nat.
  - assert (Hk : (0 <= - j)%Z) by lia.
    set (y := x + 2 * PI * IZR j).
    assert (Hx : x = y + 2 * PI * INR (Z.to_nat (- j))).
    { rewrite INR_IZR_INZ, Z2Nat.id by exact Hk. rewrite opp_IZR. unfold y. ring. }
    destruct (qrot_shift_nat n y (Z.to_nat (- j))) as [H | H]; rewrite <- Hx in H.
    + left. symmetry. exact H.
    + right. rewrite H. symmetry. apply qneg_involutive.
Qed.

Lemma qrot_normalize n x :
  qrot n (normalize_angle RNum x) = qrot n x \/ qrot n (normalize_angle RNum x) = qneg (qrot n x).
Proof. destruct (normalize_angle_shift x) as [j ->]. apply qrot_shift. Qed.

(* matrices of single-qubit circuits on one qubit *)
Lemma mscale_mscale z1 z2 q : mscale z1 (mscale z2 (qmat q)) = mscale (cmul RNum z1 z2) (qmat q).
Proof.
  destruct z1 as [u1 v1], z2 as [u2 v2].
  unfold mscale, qmat, cmul, qw, qx, qy, qz. cbn [map fst snd].
  cbn [nadd nsub nmul RNum].
  repeat match goal with
         | |- cons _ _ = cons _ _ => apply f_equal2
         | |- (_, _) = (_, _) => apply pair_eq
         | |- nil = nil => reflexivity
         end; ring.
Qed.

Lemma mscale_1 q : mscale (1, 0) (qmat q) = qmat q.
Proof.
  unfold mscale, qmat, cmul, qw, qx, qy, qz. cbn [map fst snd].
  cbn [nadd nsub nmul RNum].
  repeat match goal with
         | |- cons _ _ = cons _ _ => apply f_equal2
         | |- (_, _) = (_, _) => apply pair_eq
         | |- nil = nil => reflexivity
         end; ring.
Qed.

Lemma eye2_qmat : eye RNum (zpow2 1) = qmat qone.
Proof.
  unfold qmat, qone, qw, qx, qy, qz. cbn [fst snd].
  replace (- 0) with 0 by ring. reflexivity.
Qed.

Lemma get_matrix_bsr0 ax angle phase :
  get_matrix RNum 1 (BSR 0 ax angle phase) = Ok (mscale (cis RNum phase) (qmat (qrot ax angle))).
Proof.
  change (get_matrix RNum 1 (BSR 0 ax angle phase))
    with (Ok (kron RNum (kron RNum (eye RNum 1) (can1 RNum ax angle phase)) (eye RNum 1))).
  f_equal. rewrite can1_phase.
  set (z := cis RNum phase). destruct z as [u v].
  unfold mscale, qmat, kron, eye, unit_row.
  cbn [seq map flat_map Nat.eqb app].
  unfold cmul, c1, n1, n0, qw, qx, qy, qz. cbn [fst snd].
  cbn [nofZ nadd nsub nmul RNum].
  repeat match goal with
         | |- cons _ _ = cons _ _ => apply f_equal2
         | |- (_, _) = (_, _) => apply pair_eq
         | |- nil = nil => reflexivity
         end; ring.
Qed.

Lemma cis_mul x y : cmul RNum (cis RNum x) (cis RNum y) = cis RNum (x + y).
Proof.
  unfold cmul, cis. cbn [fst snd]. cbn [nadd nsub nmul nsin ncos RNum].
  rewrite cos_plus, sin_plus. apply pair_eq; ring.
Qed.

Lemma cis_0 : cis RNum 0 = (1, 0).
Proof. unfold cis. cbn [nsin ncos RNum]. rewrite cos_0, sin_0. reflexivity. Qed.

Lemma cis_PI : cis RNum PI = (-1, 0).
Proof. unfold cis. cbn [nsin ncos RNum]. rewrite cos_PI, sin_PI. reflexivity. Qed.

(* quaternion of a gate; product of a gate list in circuit order (later gates on the left) *)
Definition gq (g : gate R) : quat :=
  match g with BSR _ ax angle _ => qrot ax angle | _ => qone end.

Fixpoint qprod (l : list (gate R)) (acc : quat) : quat :=
  match l with [] => acc | g :: l' => qprod l' (qmul (gq g) acc) end.

(* a rotation on qubit 0 with phase 0 *)
Definition rot0 (g : gate R) : Prop := exists ax t, g = BSR 0 ax t 0.

Lemma circuit_rot0 l :
  Forall rot0 l ->
  forall p, circuit_matrix_from RNum 1 (qmat p) (map (fun g => SGate 1%positive g anon) l) =
            Ok (qmat (qprod l p)).
Proof.
  induction 1 as [|g l Hg Hl IH]; intros p; [reflexivity|].
  destruct Hg as (ax & t & ->).
  cbn [map circuit_matrix_from qprod gq]. rewrite get_matrix_bsr0, cis_0, mscale_1, qmat_mul.
  apply IH.
Qed.

Lemma qprod_filter (keep : gate R -> bool) l :
  (forall g, In g l -> keep g = false -> gq g = qone) ->
  forall acc, qprod (filter keep l) acc = qprod l acc.
Proof.
  induction l as [|g l IH]; intros H acc; [reflexivity|].
  cbn [filter qprod]. destruct (keep g) eqn:E.
  - cbn [qprod]. apply IH. intros g' Hin. apply H. right; exact Hin.
  - rewrite (H g (or_introl eq_refl) E), qmul_1_l. apply IH. intros g' Hin. apply H. right; exact Hin.
Qed.

Lemma map_fst_filter {A B} (p : A -> bool) (l : list (A * B)) :
  map fst (filter (fun x => p (fst x)) l) = filter p (map fst l).
Proof.
  induction l as [|x l IH]; [reflexivity|]. cbn [filter map].
  destruct (p (fst x)); cbn [map]; rewrite IH; reflexivity.
Qed.

(* equal up to sign *)
Definition qpm (p q : quat) : Prop := p = q \/ p = qneg q.

Lemma qpm_mul p p' q q' : qpm p p' -> qpm q q' -> qpm (qmul p q) (qmul p' q').
Proof.
  intros [-> | ->] [-> | ->]; unfold qpm;
    rewrite ?qmul_neg_l, ?qmul_neg_r, ?qneg_involutive; auto.
Qed.

(* the identity filter drops a rotation exactly when its normalised angle is 0 *)
Definition filter_exact (t : R) : Prop :=
  normalize_angle RNum t = 0 \/ ATOL <= Rabs (normalize_angle RNum t).

Lemma is_identity_rot q ax t :
  filter_exact t ->
  negb (is_identity RNum (BSR q ax (normalize_angle RNum t) 0)) = false ->
  qrot ax (normalize_angle RNum t) = qone.
Proof.
  intros Hf H. apply negb_false_iff in H. cbn [is_identity] in H.
  apply andb_true_iff in H. destruct H as [H _].
  change (nltb RNum (nabs RNum (normalize_angle RNum t)) (atol RNum))
    with (Rltb (Rabs (normalize_angle RNum t)) ATOL) in H.
  apply Rltb_true in H. destruct Hf as [-> | Hge]; [apply qrot_0 | lra].
Qed.

Theorem aba_decompose_exact ia ib ax alpha phase :
  ia <> ib -> unit_axis ax -> - PI < alpha <= PI -> - PI + ATOL <= alpha ->
  exact_regime ia ib alpha ax ->
  (forall t1 t2 t3, aba_angles RNum ia ib alpha ax = Ok (t1, t2, t3) ->
                    filter_exact t1 /\ filter_exact t2 /\ filter_exact t3) ->
  exists l,
    aba_gates RNum ia ib (BSR 0 ax alpha phase) = Ok l /\
    exists phi,
      gates_matrix RNum 1 (map fst l) = Ok (mscale (cis RNum phi) (can1 RNum ax alpha phase)).
Proof.
  intros Hab Hu Hrange Hlow Hreg Hfilt.
  destruct (aba_angles_exact_strong ia ib alpha ax Hab Hu Hrange Hlow Hreg) as (t1 & t2 & t3 & Hang & Hprod).
  destruct (Hfilt t1 t2 t3 Hang) as (Hf1 & Hf2 & Hf3).
  unfold aba_gates. rewrite Hang. eexists. split; [reflexivity|].
  unfold filter_identities.
  rewrite (map_fst_filter (fun g => negb (is_identity RNum g))).
  cbn [map]. rewrite !rot_gate_R, !mk_axis_e, normalize_angle_0.
  set (n1 := normalize_angle RNum t1). set (n2 := normalize_angle RNum t2). set (n3 := normalize_angle RNum t3).
  unfold gates_matrix, circuit_matrix. rewrite eye2_qmat.
  rewrite circuit_rot0.
  2:{ apply Forall_forall. intros g Hg. apply filter_In in Hg. destruct Hg as [Hg _].
      cbn [In] in Hg. destruct Hg as [<- | [<- | [<- | []]]]; eexists; eexists; reflexivity. }
  rewrite qprod_filter.
  2:{ intros g Hg Hk. cbn [In] in Hg. destruct Hg as [<- | [<- | [<- | []]]]; cbn [gq];
        eapply is_identity_rot; eassumption. }
  cbn [qprod gq]. rewrite qmul_1_r.
  assert (Hpm : qpm (qmul (qrot (e_axis ia) n3) (qmul (qrot (e_axis ib) n2) (qrot (e_axis ia) n1)))
                    (qrot ax alpha)).
  { rewrite <- Hprod. repeat apply qpm_mul; apply qrot_normalize. }
  rewrite can1_phase. fold (mscale (cis RNum phase) (qmat (qrot ax alpha))).
  destruct Hpm as [-> | ->].
  - exists (- phase). rewrite mscale_mscale, cis_mul.
    replace (- phase + phase) with 0 by ring. rewrite cis_0, mscale_1. reflexivity.
  - exists (PI - phase). rewrite mscale_mscale, cis_mul.
    replace (PI - phase + phase) with PI by ring. rewrite cis_PI, qmat_neg. reflexivity.
Qed.

(* without [exact_regime] the statement is false: Z-Y-Z, alpha = PI, axis (0, sqrt(1-a^2), a)
   with 0 < a = ATOL/2 < ATOL takes the "a = 0" shortcut and loses the Z component *)
Theorem aba_angles_regime_needed :
  exists ia ib alpha ax,
    ia <> ib /\ unit_axis ax /\ - PI < alpha <= PI /\ - PI + ATOL <= alpha /\
    forall t1 t2 t3,
      aba_angles RNum ia ib alpha ax = Ok (t1, t2, t3) ->
      ~ qpm (qmul (qrot (e_axis ia) t3) (qmul (qrot (e_axis ib) t2) (qrot (e_axis ia) t1)))
            (qrot ax alpha).
Proof.
  pose proof ATOL_pos as Hat. pose proof PI_bounds as [HP _].
  set (a := ATOL / 2).
  assert (Haa : 0 <= 1 - a * a) by (unfold a, ATOL; lra).
  exists AxZ, AxY, PI, (0, sqrt (1 - a * a), a).
  split; [discriminate|]. split.
  { unfold unit_axis, ax_x, ax_y, ax_z. cbn [fst snd]. rewrite sqrt_sqrt by exact Haa. ring. }
  split; [lra|]. split; [unfold ATOL; lra|].
  intros t1 t2 t3 Hang.
  rewrite aba_angles_R, aba_range_check in Hang by (unfold ATOL; lra).
  cbn [axis_comp unused_axis ax_x ax_y ax_z fst snd] in Hang.
  unfold pick_R in Hang. rewrite pick_R_pi_test in Hang.
  assert (E1 : Rltb (Rabs a) ATOL = true).
  { apply Rltb_true. rewrite Rabs_right by (unfold a; lra). unfold a. lra. }
  rewrite E1 in Hang. injection Hang as _ H2 _.
  assert (Hz : forall q, qpm q (qrot (0, sqrt (1 - a * a), a) PI) -> qz q <> 0).
  { intros q [-> | ->]; unfold qrot, qneg, qw, qx, qy, qz, ax_x, ax_y, ax_z; cbn [fst snd];
      rewrite sin_PI2; unfold a; lra. }
  intros Hpm. apply Hz in Hpm. apply Hpm.
  rewrite (aba_product AxZ AxY t1 t2 t3) by discriminate.
  rewrite <- H2.
  unfold qabc, qz. cbn [snd]. change (Z.eqb (axis_index AxZ) (axis_index AxZ)) with true. cbv iota.
  rewrite cos_PI2. ring.
Qed.

Print Assumptions aba_angles_exact_strong.
Print Assumptions aba_angles_exact.
Print Assumptions aba_angles_exact_matrix.
Print Assumptions aba_decompose_exact.
Print Assumptions aba_angles_regime_needed.
