(* BuilderP.v — properties of the CircuitBuilder model (Model/Builder.v), for
   any T and any N : Num T:
   - rejected calls have no effect whatsoever (step_reject_unchanged);
   - an accepted call appends exactly one statement (step_appends_one);
   - exact characterisation of the accepted calls (step_accepts_iff,
     step_accepts_explicit, eval_call_default);
   - the builder only ever holds well-formed statements (builder_wf,
     builder_run_wf);
   - refusals: unknown names, comments, arity, indices;
   - snapshots are prefixes of every later state (builder_run_app,
     builder_run_prefix). *)
From Coq Require Import String ZArith List Bool Lia.
Import ListNotations.
From OSQ Require Import Num IR Construct DefaultTable ParserExpand Builder.
Open Scope string_scope.
Open Scope list_scope.

(* ------------------------------------------------------------------ *)
(** * strings and tables (no T) *)

Lemma mem_str_In s l : mem_str s l = true <-> In s l.
Proof.
  unfold mem_str. rewrite existsb_exists. split.
  - intros [x [Hin He]]. apply String.eqb_eq in He. subst x. exact Hin.
  - intros Hin. exists s. split; [exact Hin|apply String.eqb_refl].
Qed.

Lemma mem_str_app s l1 l2 : mem_str s (l1 ++ l2) = mem_str s l1 || mem_str s l2.
Proof. unfold mem_str. apply existsb_app. Qed.

Lemma find_entry_some name tbl e :
  find_entry name tbl = Some e -> In e tbl /\ e_name e = name.
Proof.
  induction tbl as [|e0 tbl IH]; cbn [find_entry]; [discriminate|].
  destruct (String.eqb (e_name e0) name) eqn:E.
  - intros H; inversion H; subst e0. split; [left; reflexivity|apply String.eqb_eq; exact E].
  - intros H. destruct (IH H) as [Hin Hn]. split; [right; exact Hin|exact Hn].
Qed.

Lemma find_entry_none name tbl :
  find_entry name tbl = None -> forall e, In e tbl -> e_name e <> name.
Proof.
  induction tbl as [|e0 tbl IH]; cbn [find_entry]; intros H e Hin; [destruct Hin|].
  destruct (String.eqb (e_name e0) name) eqn:E; [discriminate|].
  destruct Hin as [<-|Hin]; [apply String.eqb_neq; exact E|exact (IH H e Hin)].
Qed.

Lemma assoc_str_some {A} name (l : list (string * A)) v :
  assoc_str name l = Some v -> In (name, v) l.
Proof.
  induction l as [|[k w] l IH]; cbn [assoc_str]; [discriminate|].
  destruct (String.eqb k name) eqn:E.
  - intros H; inversion H; subst w. apply String.eqb_eq in E; subst k. left; reflexivity.
  - intros H. right. exact (IH H).
Qed.

Lemma assoc_str_none {A} name (l : list (string * A)) :
  assoc_str name l = None <-> mem_str name (map fst l) = false.
Proof.
  induction l as [|[k w] l IH]; cbn [assoc_str map fst]; [split; reflexivity|].
  unfold mem_str in *. cbn [existsb]. rewrite (String.eqb_sym name k).
  destruct (String.eqb k name); cbn [orb]; [split; discriminate|exact IH].
Qed.

(* every entry of the table is a member of the gate set, and conversely *)
Lemma table_names_in_gate_set e : In e hand_table -> mem_str (e_name e) hand_gate_set = true.
Proof.
  assert (H : forallb (fun e => mem_str (e_name e) hand_gate_set) hand_table = true) by reflexivity.
  rewrite forallb_forall in H. exact (H e).
Qed.

Lemma gate_set_in_table name : mem_str name hand_gate_set = true ->
  exists e, find_entry name hand_table = Some e.
Proof.
  intros H. apply mem_str_In in H.
  assert (Hall : forallb (fun n => match find_entry n hand_table with Some _ => true | None => false end)
                         hand_gate_set = true) by reflexivity.
  rewrite forallb_forall in Hall. specialize (Hall name H).
  destruct (find_entry name hand_table) as [e|]; [exists e; reflexivity|discriminate].
Qed.

(** the names a builder call may use *)
Definition call_names : list string :=
  hand_measure_set ++ hand_reset_set ++ hand_gate_set ++ map fst hand_aliases.
Definition known_call_name (name : string) : bool := mem_str name call_names.

(** the generator names a stored statement may carry (aliases are resolved) *)
Definition ctrl_names : list string := ["CNOT"; "CZ"; "CR"; "CRk"].

Definition measure_params : list (string * pkind) := [("q", KQ); ("b", KB)].
Definition reset_params : list (string * pkind) := [("q", KQ)].

(* what lookup_params returns, exactly *)
Lemma lookup_params_ok name k fname ps :
  lookup_params name = Ok (k, fname, ps) ->
  (k = KMeasure /\ fname = name /\ mem_str name hand_measure_set = true /\ ps = measure_params) \/
  (k = KReset /\ fname = name /\ mem_str name hand_reset_set = true /\ ps = reset_params) \/
  (k = KGate /\ mem_str name hand_measure_set = false /\ mem_str name hand_reset_set = false /\
   (mem_str name hand_gate_set = true /\ fname = name \/
    mem_str name hand_gate_set = false /\ assoc_str name hand_aliases = Some fname) /\
   exists e, find_entry fname hand_table = Some e /\ In e hand_table /\ e_name e = fname /\
             ps = e_params e /\ mem_str fname hand_gate_set = true).
Proof.
  unfold lookup_params.
  destruct (mem_str name hand_measure_set) eqn:Em.
  { apply mem_str_In in Em. cbn [hand_measure_set In] in Em.
    destruct Em as [<-|[<-|[]]]; cbn; intros H; inversion H; subst; left; repeat split; reflexivity. }
  destruct (mem_str name hand_reset_set) eqn:Er.
  { apply mem_str_In in Er. cbn [hand_reset_set In] in Er.
    destruct Er as [<-|[]]; cbn; intros H; inversion H; subst; right; left; repeat split; reflexivity. }
  intros H. right; right.
  destruct (mem_str name hand_gate_set) eqn:Eg.
  - destruct (find_entry name hand_table) as [e|] eqn:Ef; [|discriminate].
    inversion H; subst. destruct (find_entry_some _ _ _ Ef) as [Hin Hn].
    repeat split; auto. exists e. repeat split; auto.
  - destruct (assoc_str name hand_aliases) as [fn|] eqn:Ea; [|discriminate].
    destruct (find_entry fn hand_table) as [e|] eqn:Ef; [|discriminate].
    inversion H; subst. destruct (find_entry_some _ _ _ Ef) as [Hin Hn].
    repeat split; auto. exists e. repeat split; auto.
    rewrite <- Hn. apply table_names_in_gate_set; exact Hin.
Qed.

(* lookup_params fails exactly on the unknown names, and only with ValueError *)
Lemma lookup_params_err name e : lookup_params name = Err e -> e = EValue.
Proof.
  unfold lookup_params.
  destruct (mem_str name hand_measure_set);
    [destruct (find _ hand_measures); intros H; inversion H; reflexivity|].
  destruct (mem_str name hand_reset_set);
    [destruct (find _ hand_resets); intros H; inversion H; reflexivity|].
  destruct (if mem_str name hand_gate_set then Some name else assoc_str name hand_aliases) as [fn|];
    [destruct (find_entry fn hand_table)|]; intros H; inversion H; reflexivity.
Qed.

Lemma lookup_params_unknown name :
  lookup_params name = Err EValue <-> known_call_name name = false.
Proof.
  unfold known_call_name, call_names. rewrite !mem_str_app, !orb_false_iff.
  split.
  - intros H. unfold lookup_params in H.
    destruct (mem_str name hand_measure_set) eqn:Em.
    { apply mem_str_In in Em. cbn [hand_measure_set In] in Em.
      destruct Em as [<-|[<-|[]]]; cbn in H; discriminate. }
    destruct (mem_str name hand_reset_set) eqn:Er.
    { apply mem_str_In in Er. cbn [hand_reset_set In] in Er.
      destruct Er as [<-|[]]; cbn in H; discriminate. }
    destruct (mem_str name hand_gate_set) eqn:Eg.
    { destruct (gate_set_in_table name Eg) as [e Ef]. rewrite Ef in H. discriminate. }
    destruct (assoc_str name hand_aliases) as [fn|] eqn:Ea.
    { apply assoc_str_some in Ea. cbn [hand_aliases In] in Ea.
      destruct Ea as [Ea|[Ea|[]]]; inversion Ea; subst; cbn in H; discriminate. }
    apply assoc_str_none in Ea. auto.
  - intros (Hm & Hr & Hg & Ha). unfold lookup_params. rewrite Hm, Hr, Hg.
    apply assoc_str_none in Ha. rewrite Ha. reflexivity.
Qed.

Section BuilderP.
  Context {T : Type} (N : Num T).

  (* ------------------------------------------------------------------ *)
  (** * arguments: kinds, bounds *)

  Definition in_range (n z : Z) : Prop := (0 <= z < n)%Z.

  Definition arg_ok (nq nb : Z) (a : arg T) : Prop :=
    match a with AQ q => in_range nq q | AB b => in_range nb b | _ => True end.

  Definition arg_okb (nq nb : Z) (a : arg T) : bool :=
    match a with
    | AQ q => Z.leb 0 q && Z.ltb q nq
    | AB b => Z.leb 0 b && Z.ltb b nb
    | _ => true
    end.

  Lemma range_b n z : Z.leb 0 z && Z.ltb z n = true <-> in_range n z.
  Proof. unfold in_range. rewrite andb_true_iff, Z.leb_le, Z.ltb_lt. tauto. Qed.

  Lemma arg_okb_spec nq nb a : arg_okb nq nb a = true <-> arg_ok nq nb a.
  Proof. destruct a; cbn [arg_okb arg_ok]; try apply range_b; tauto. Qed.

  Lemma arg_okb_false nq nb a : arg_okb nq nb a = false <-> ~ arg_ok nq nb a.
  Proof. rewrite <- arg_okb_spec. destruct (arg_okb nq nb a); split; congruence. Qed.

  Definition arg_bits (args : list (arg T)) : list Z :=
    flat_map (fun a => match a with AB b => [b] | _ => [] end) args.

  Lemma Forall_arg_ok nq nb (args : list (arg T)) :
    Forall (arg_ok nq nb) args <->
    Forall (in_range nq) (arg_qubits args) /\ Forall (in_range nb) (arg_bits args).
  Proof.
    induction args as [|a args IH]; cbn [arg_qubits arg_bits flat_map].
    - split; [split; constructor|constructor].
    - fold (arg_qubits args). fold (arg_bits args). split.
      + intros H. inversion H as [|a' l' Ha Hr]; subst. apply IH in Hr. destruct Hr as [Hq Hb].
        destruct a; cbn [app arg_ok] in *; split; auto.
      + intros [Hq Hb]. destruct a; cbn [app] in *.
        * inversion Hq; subst. constructor; [assumption|]. apply IH; auto.
        * inversion Hb; subst. constructor; [assumption|]. apply IH; auto.
        * constructor; [exact I|]. apply IH; auto.
        * constructor; [exact I|]. apply IH; auto.
  Qed.

  (* the converted argument has the kind of the parameter *)
  Definition arg_kind (a : arg T) : pkind :=
    match a with AQ _ => KQ | AB _ => KB | AF _ => KF | AI _ => KI end.

  Lemma convert_kind k (v : pyval T) a : convert k v = Some a -> arg_kind a = k.
  Proof. destruct k, v; cbn; intros H; inversion H; reflexivity. Qed.

  (* [converts ps vs args]: same length, and value i converts to argument i
     under the kind of parameter i *)
  Inductive converts : list (string * pkind) -> list (pyval T) -> list (arg T) -> Prop :=
  | cv_nil : converts [] [] []
  | cv_cons n k ps v vs a args :
      convert k v = Some a -> converts ps vs args ->
      converts ((n, k) :: ps) (v :: vs) (a :: args).

  Lemma converts_length ps vs args :
    converts ps vs args -> List.length vs = List.length ps /\ List.length args = List.length ps.
  Proof. induction 1 as [|n k ps v vs a args Hc Hr [IH1 IH2]]; cbn [List.length]; auto. Qed.

  (* the Forall2 phrasing of [converts] *)
  Lemma converts_Forall2 ps vs args :
    converts ps vs args <->
    List.length vs = List.length ps /\
    Forall2 (fun pv a => convert (snd (fst pv)) (snd pv) = Some a) (combine ps vs) args.
  Proof.
    split.
    - induction 1 as [|n k ps v vs a args Hc Hr [IH1 IH2]]; cbn [List.length combine].
      + split; [reflexivity|constructor].
      + split; [congruence|]. constructor; [exact Hc|exact IH2].
    - revert vs args. induction ps as [|[n k] ps IH]; intros [|v vs] args [Hl HF];
        cbn [List.length combine] in *; try discriminate.
      + inversion HF; subst. constructor.
      + inversion HF as [|pv a l args' Hc HF']; subst. cbn [fst snd] in Hc.
        constructor; [exact Hc|]. apply IH. split; [congruence|exact HF'].
  Qed.

  Lemma converts_args_match ps vs args : converts ps vs args -> args_match ps args = true.
  Proof.
    induction 1 as [|n k ps v vs a args Hc Hr IH]; [reflexivity|].
    apply convert_kind in Hc. destruct a, k; cbn in Hc; try discriminate; cbn [args_match]; exact IH.
  Qed.

  Lemma converts_functional ps vs args args' :
    converts ps vs args -> converts ps vs args' -> args = args'.
  Proof.
    intros H; revert args'. induction H as [|n k ps v vs a args Hc Hr IH]; intros args' H'.
    - inversion H'; reflexivity.
    - inversion H'; subst. f_equal; [congruence|]. apply IH; assumption.
  Qed.

  (* ------------------------------------------------------------------ *)
  (** * check_args *)

  Lemma check_args_cons nq nb n k ps v vs :
    check_args nq nb ((n, k) :: ps) (v :: vs) =
    match convert k v with
    | None => Err EType
    | Some a => if arg_okb nq nb a
                then match check_args nq nb ps vs with Err e => Err e | Ok r => Ok (a :: r) end
                else Err EIndex
    end.
  Proof.
    cbn [check_args]. destruct (convert k v) as [a|]; [|reflexivity].
    destruct a; cbn [arg_okb negb];
      try match goal with |- context [negb ?b] => destruct b end; reflexivity.
  Qed.

  (* check_args succeeds exactly when the values, up to the number of
     parameters, convert and are in bounds; surplus values are not looked at *)
  Lemma check_args_ok_iff nq nb ps vs args :
    check_args nq nb ps vs = Ok args <->
    exists vs1 extra, vs = vs1 ++ extra /\ converts ps vs1 args /\ Forall (arg_ok nq nb) args.
  Proof.
    split.
    - revert vs args. induction ps as [|[n k] ps IH]; intros vs args H.
      + cbn in H. inversion H; subst. exists [], vs. repeat split; constructor.
      + destruct vs as [|v vs]; [cbn in H; discriminate|].
        rewrite check_args_cons in H.
        destruct (convert k v) as [a|] eqn:Ec; [|discriminate].
        destruct (arg_okb nq nb a) eqn:Eb; [|discriminate].
        destruct (check_args nq nb ps vs) as [r|] eqn:Er; [|discriminate].
        inversion H; subst. destruct (IH vs r Er) as (vs1 & extra & -> & Hc & Hok).
        exists (v :: vs1), extra. repeat split.
        * constructor; assumption.
        * constructor; [apply arg_okb_spec; exact Eb|exact Hok].
    - intros (vs1 & extra & -> & Hc & Hok).
      induction Hc as [|n k ps v vs a args Hc Hr IH]; [reflexivity|].
      inversion Hok as [|a' l' Ha Hok']; subst.
      cbn [app]. rewrite check_args_cons, Hc.
      apply arg_okb_spec in Ha. rewrite Ha, (IH Hok'). reflexivity.
  Qed.

  Lemma check_args_err_kind nq nb ps (vs : list (pyval T)) e :
    check_args nq nb ps vs = Err e -> e = EType \/ e = EIndex.
  Proof.
    revert vs. induction ps as [|[n k] ps IH]; intros vs H; [cbn in H; discriminate|].
    destruct vs as [|v vs]; [cbn in H; inversion H; auto|].
    rewrite check_args_cons in H.
    destruct (convert k v) as [a|]; [|inversion H; auto].
    destruct (arg_okb nq nb a); [|inversion H; auto].
    destruct (check_args nq nb ps vs) as [r|e'] eqn:Er; [discriminate|].
    inversion H; subst. exact (IH vs Er).
  Qed.

  (* fewer values than parameters, the given ones passing: IndexError *)
  Lemma check_args_missing nq nb ps1 ps2 vs args :
    converts ps1 vs args -> Forall (arg_ok nq nb) args -> ps2 <> [] ->
    check_args nq nb (ps1 ++ ps2) vs = Err EIndex.
  Proof.
    intros Hc Hok Hne. induction Hc as [|n k ps v vs a args Hc Hr IH].
    - destruct ps2 as [|[n k] ps2]; [congruence|reflexivity].
    - inversion Hok as [|a' l' Ha Hok']; subst. cbn [app].
      rewrite check_args_cons, Hc. apply arg_okb_spec in Ha. rewrite Ha, (IH Hok'). reflexivity.
  Qed.

  (* fewer values than parameters: always an error *)
  Lemma check_args_short nq nb ps (vs : list (pyval T)) :
    (List.length vs < List.length ps)%nat -> exists e, check_args nq nb ps vs = Err e.
  Proof.
    revert vs. induction ps as [|[n k] ps IH]; intros vs Hl; [cbn in Hl; lia|].
    destruct vs as [|v vs]; [exists EIndex; reflexivity|].
    rewrite check_args_cons. destruct (convert k v) as [a|]; [|eexists; reflexivity].
    destruct (arg_okb nq nb a); [|eexists; reflexivity].
    cbn [List.length] in Hl. destruct (IH vs ltac:(lia)) as [e He]. rewrite He. eexists; reflexivity.
  Qed.

  (* an out-of-bounds argument at some position: always refused; with
     IndexError when the values before it have the right types *)
  Lemma check_args_out_of_bounds nq nb ps1 n k ps2 vs1 v vs2 a :
    List.length vs1 = List.length ps1 ->
    convert k v = Some a -> ~ arg_ok nq nb a ->
    (exists e, check_args nq nb (ps1 ++ (n, k) :: ps2) (vs1 ++ v :: vs2) = Err e /\
               (e = EIndex \/ e = EType)) /\
    ((exists args1, converts ps1 vs1 args1) ->
     check_args nq nb (ps1 ++ (n, k) :: ps2) (vs1 ++ v :: vs2) = Err EIndex).
  Proof.
    intros Hl Hc Hbad. apply arg_okb_false in Hbad.
    revert vs1 Hl. induction ps1 as [|[n1 k1] ps1 IH]; intros [|v1 vs1] Hl; cbn [List.length] in Hl;
      try discriminate; cbn [app]; rewrite check_args_cons.
    - rewrite Hc, Hbad. split; [exists EIndex; auto|reflexivity].
    - destruct (IH vs1 ltac:(lia)) as [[e [He Hk]] Himp]. split.
      + destruct (convert k1 v1) as [a1|]; [|exists EType; auto].
        destruct (arg_okb nq nb a1); [|exists EIndex; auto].
        rewrite He. exists e; auto.
      + intros [args1 Hcv]. inversion Hcv as [|n' k' ps' v' vs' a1 args' Hc1 Hr]; subst.
        rewrite Hc1. destruct (arg_okb nq nb a1); [|reflexivity].
        rewrite Himp; [reflexivity|]. exists args'; exact Hr.
  Qed.

  (* ------------------------------------------------------------------ *)
  (** * the default gates on matching arguments (20 entries of hand_table) *)

  Lemma args_match_nil (args : list (arg T)) : args_match [] args = true -> args = [].
  Proof. destruct args; [reflexivity|discriminate]. Qed.

  Lemma args_match_cons n k ps (args : list (arg T)) :
    args_match ((n, k) :: ps) args = true ->
    exists a rest, args = a :: rest /\ arg_kind a = k /\ args_match ps rest = true.
  Proof.
    destruct args as [|a rest]; [destruct k; discriminate|].
    intros H. exists a, rest. destruct k, a; cbn [args_match] in H; try discriminate H; auto.
  Qed.

  Ltac inv_match H :=
    repeat match type of H with
           | args_match ((_, _) :: _) _ = true =>
               let a := fresh "a" in let rest := fresh "rest" in let Hk := fresh "Hk" in
               apply args_match_cons in H; destruct H as (a & rest & -> & Hk & H);
               destruct a; try discriminate Hk; clear Hk
           | args_match [] _ = true => apply args_match_nil in H; rewrite H; clear H
           end.

  Ltac ctrl_case c t :=
    cbn; unfold mk_ctrl, eval_bsrdef, mk_bsr; cbn [gate_qubits znodup zmem arg_qubits flat_map app];
    destruct (Z.eqb_spec c t) as [Heq|Hne];
    [ subst; right; cbn; repeat split; [cbn; tauto|eexists; reflexivity]
    | left; cbn; eexists; repeat split ].

  (* for every table entry, on arguments of the right kinds: the entry
     evaluates to a gate whose operands are exactly the qubit arguments, in
     order, and these are pairwise distinct; or it is a controlled gate called
     with control = target and the ControlledGate constructor raises ValueError *)
  Lemma eval_entry_table e args :
    In e hand_table -> args_match (e_params e) args = true ->
    (exists g, eval_entry N 2 hand_table e args = Ok g /\
               gate_qubits g = arg_qubits args /\ znodup (arg_qubits args) = true) \/
    (eval_entry N 2 hand_table e args = Err EValue /\ In (e_name e) ctrl_names /\
     exists c, arg_qubits args = [c; c]).
  Proof.
    intros Hin Hm. cbn [hand_table In] in Hin.
    repeat (destruct Hin as [Hin|Hin]; [subst e; cbn [e_params] in Hm; unfold q1, q1f in Hm; inv_match Hm|]);
      try (left; eexists; repeat split; reflexivity); try contradiction.
    all: match goal with
         | |- context [eval_entry _ _ _ _ (AQ ?c :: AQ ?t :: _)] => ctrl_case c t
         end.
  Qed.

  (* no Bit parameter in the gate table *)
  Lemma args_match_no_bits ps (args : list (arg T)) :
    forallb (fun p : string * pkind => match snd p with KB => false | _ => true end) ps = true ->
    args_match ps args = true -> arg_bits args = [].
  Proof.
    revert args. induction ps as [|[n k] ps IH]; intros args Hnb Hm.
    - apply args_match_nil in Hm. subst args. reflexivity.
    - apply args_match_cons in Hm. destruct Hm as (a & rest & -> & Hk & Hm).
      cbn [forallb snd] in Hnb. apply andb_true_iff in Hnb. destruct Hnb as [Hk2 Hnb].
      destruct a; cbn [arg_kind] in Hk; subst k; try discriminate Hk2;
        cbn [arg_bits flat_map app]; apply IH; assumption.
  Qed.

  Lemma gate_table_no_bits e (args : list (arg T)) :
    In e hand_table -> args_match (e_params e) args = true -> arg_bits args = [].
  Proof.
    intros Hin Hm.
    assert (Hnb : forallb (fun e => forallb (fun p : string * pkind =>
                                               match snd p with KB => false | _ => true end)
                                            (e_params e)) hand_table = true) by reflexivity.
    rewrite forallb_forall in Hnb. exact (args_match_no_bits _ _ (Hnb e Hin) Hm).
  Qed.

  Lemma znodup_false_pair (l : list Z) :
    znodup l = false -> (List.length l <= 2)%nat -> exists c, l = [c; c].
  Proof.
    destruct l as [|a [|b [|c l]]]; cbn [znodup zmem List.length]; intros H Hl;
      try discriminate; try lia.
    destruct (Z.eqb_spec a b) as [->|Hne]; [exists b; reflexivity|discriminate].
  Qed.

  (* default_gate on a resolved name and matching arguments *)
  Lemma default_gate_table e args :
    In e hand_table -> find_entry (e_name e) hand_table = Some e ->
    args_match (e_params e) args = true ->
    (exists g, default_gate N (e_name e) args = Ok (g, mkGinfo (Some (e_name e)) (Some args)) /\
               gate_qubits g = arg_qubits args /\ znodup (arg_qubits args) = true) \/
    (default_gate N (e_name e) args = Err EValue /\ In (e_name e) ctrl_names /\
     exists c, arg_qubits args = [c; c]).
  Proof.
    intros Hin Hf Hm. unfold default_gate. rewrite Hf.
    destruct (eval_entry_table e args Hin Hm) as [(g & He & Hq & Hn)|(He & Hc & Hcc)]; rewrite He.
    - left. exists g. auto.
    - right. auto.
  Qed.

  (* ------------------------------------------------------------------ *)
  (** * eval_call on what lookup_params and check_args hand over *)

  Definition set_oid (o : positive) (s : stmt T) : stmt T :=
    match s with
    | SGate _ g gi => SGate o g gi
    | SMeasure _ q b ax gi => SMeasure o q b ax gi
    | SReset _ q gi => SReset o q gi
    | SComment t => SComment t
    end.

  (* the object identity plays no role in acceptance *)
  Lemma eval_call_oid o o' (c : call T) :
    eval_call N o' c = match eval_call N o c with Ok s => Ok (set_oid o' s) | Err e => Err e end.
  Proof.
    destruct c as [k name args]. unfold eval_call. cbn [c_kind c_args c_name]. destruct k.
    - destruct (default_gate N name args) as [[g gi]|e]; reflexivity.
    - destruct args as [|[q|b|x|z] [|[q'|b'|x'|z'] [|a3 args]]]; reflexivity.
    - destruct args as [|[q|b|x|z] [|a2 args]]; reflexivity.
  Qed.

  (** well-formed statements *)
  Definition stmt_bits (s : stmt T) : list Z :=
    match s with SMeasure _ _ b _ _ => [b] | _ => [] end.

  Definition stmt_ginfo (s : stmt T) : option (ginfo T) :=
    match s with
    | SGate _ _ gi | SMeasure _ _ _ _ gi | SReset _ _ gi => Some gi
    | SComment _ => None
    end.

  (* the set of generator names a statement of this sort may carry *)
  Definition stmt_name_set (s : stmt T) : list string :=
    match s with
    | SGate _ _ _ => hand_gate_set
    | SMeasure _ _ _ _ _ => hand_measure_set
    | SReset _ _ _ => hand_reset_set
    | SComment _ => []
    end.

  Definition wf_stmt (nq nb : Z) (s : stmt T) : Prop :=
    (* every qubit in range, every bit in range *)
    Forall (in_range nq) (stmt_qubits s) /\
    Forall (in_range nb) (stmt_bits s) /\
    (* the operands of a gate are pairwise distinct *)
    (forall o g gi, s = SGate o g gi -> znodup (gate_qubits g) = true) /\
    (* named with a known name; the captured arguments agree with the semantic fields *)
    (forall gi, stmt_ginfo s = Some gi ->
       exists name args, gi = mkGinfo (Some name) (Some args) /\
                         mem_str name (stmt_name_set s) = true /\
                         arg_qubits args = stmt_qubits s /\
                         arg_bits args = stmt_bits s) /\
    (* a comment cannot close the comment block *)
    (forall t, s = SComment t -> contains "*/" t = false).

  (* what eval_call does on the output of lookup_params with converted arguments *)
  Theorem eval_call_default name k fname ps vs args next :
    lookup_params name = Ok (k, fname, ps) -> converts ps vs args ->
    (exists s, eval_call N next (mkCall k fname args) = Ok s /\
               znodup (arg_qubits args) = true /\
               (forall nq nb, Forall (arg_ok nq nb) args -> wf_stmt nq nb s)) \/
    (eval_call N next (mkCall k fname args) = Err EValue /\
     k = KGate /\ In fname ctrl_names /\ exists c, arg_qubits args = [c; c]).
  Proof.
    intros Hl Hc.
    destruct (lookup_params_ok _ _ _ _ Hl)
      as [(-> & -> & Hm & ->)|[(-> & -> & Hm & ->)|(-> & _ & _ & _ & e & Hf & Hin & Hn & -> & Hg)]].
    - (* measure *)
      left. inversion Hc as [|n1 k1 ps1 v1 vs1 a1 args1 Hc1 Hr1]; subst.
      inversion Hr1 as [|n2 k2 ps2 v2 vs2 a2 args2 Hc2 Hr2]; subst. inversion Hr2; subst.
      pose proof (convert_kind _ _ _ Hc1) as K1. pose proof (convert_kind _ _ _ Hc2) as K2.
      destruct a1; try discriminate K1. destruct a2; try discriminate K2.
      eexists. split; [reflexivity|]. split; [reflexivity|].
      intros nq nb Hok. apply Forall_arg_ok in Hok. destruct Hok as [Hq Hb].
      cbn [arg_qubits arg_bits flat_map app] in Hq, Hb.
      unfold wf_stmt. cbn [stmt_qubits stmt_bits stmt_ginfo stmt_name_set].
      repeat split; try assumption; try discriminate.
      intros gi Hgi. inversion Hgi; subst. do 2 eexists. repeat split. exact Hm.
    - (* reset *)
      left. inversion Hc as [|n1 k1 ps1 v1 vs1 a1 args1 Hc1 Hr1]; subst. inversion Hr1; subst.
      pose proof (convert_kind _ _ _ Hc1) as K1. destruct a1; try discriminate K1.
      eexists. split; [reflexivity|]. split; [reflexivity|].
      intros nq nb Hok. apply Forall_arg_ok in Hok. destruct Hok as [Hq Hb].
      cbn [arg_qubits arg_bits flat_map app] in Hq, Hb.
      unfold wf_stmt. cbn [stmt_qubits stmt_bits stmt_ginfo stmt_name_set].
      repeat split; try assumption; try discriminate.
      intros gi Hgi. inversion Hgi; subst. do 2 eexists. repeat split. exact Hm.
    - (* gate *)
      pose proof (converts_args_match _ _ _ Hc) as Hma.
      subst fname. unfold eval_call. cbn [c_kind c_args c_name].
      destruct (default_gate_table e args Hin Hf Hma) as [(g & He & Hq & Hnd)|(He & Hcn & Hcc)];
        rewrite He.
      + left. eexists. split; [reflexivity|]. split; [exact Hnd|].
        intros nq nb Hok. apply Forall_arg_ok in Hok. destruct Hok as [Hqr Hbr].
        unfold wf_stmt. cbn [stmt_qubits stmt_bits stmt_ginfo stmt_name_set].
        repeat split; try discriminate.
        * rewrite Hq; exact Hqr.
        * constructor.
        * intros o g' gi' Hs. inversion Hs; subst. rewrite Hq; exact Hnd.
        * intros gi Hgi. inversion Hgi; subst. exists (e_name e), args. repeat split; auto.
          apply (gate_table_no_bits e args Hin Hma).
      + right. auto.
  Qed.

  (* errors of eval_call on default instructions: only ValueError, only for a
     controlled gate whose control and target coincide *)
  Corollary eval_call_err_only_ctrl name k fname ps vs args next e :
    lookup_params name = Ok (k, fname, ps) -> converts ps vs args ->
    eval_call N next (mkCall k fname args) = Err e ->
    e = EValue /\ k = KGate /\ In fname ctrl_names /\ exists c, arg_qubits args = [c; c].
  Proof.
    intros Hl Hc He.
    destruct (eval_call_default _ _ _ _ _ _ next Hl Hc) as [(s & Hs & _)|(Hs & Hk & Hn & Hcc)];
      rewrite Hs in He; [discriminate|]. inversion He; subst. auto.
  Qed.

  Corollary eval_call_ok_iff_nodup name k fname ps vs args next :
    lookup_params name = Ok (k, fname, ps) -> converts ps vs args ->
    ((exists s, eval_call N next (mkCall k fname args) = Ok s) <-> znodup (arg_qubits args) = true).
  Proof.
    intros Hl Hc.
    destruct (eval_call_default _ _ _ _ _ _ next Hl Hc) as [(s & Hs & Hn & _)|(Hs & Hk & Hn & c & Hcc)].
    - split; [intros _; exact Hn|intros _; exists s; exact Hs].
    - split.
      + intros [s Hs']. rewrite Hs in Hs'. discriminate.
      + rewrite Hcc. cbn [znodup zmem]. rewrite Z.eqb_refl. discriminate.
  Qed.

  (* ------------------------------------------------------------------ *)
  (** * 2. an accepted call appends exactly one statement *)

  Theorem step_appends_one nq nb ir next c ir' next' :
    builder_step N nq nb (ir, next) c = Ok (ir', next') ->
    exists s, ir' = ir ++ [s] /\
              next' = match c with BInstr _ _ => Pos.succ next | BComment _ => next end.
  Proof.
    destruct c as [name vs|t]; cbn [builder_step].
    - destruct (lookup_params name) as [[[k fname] ps]|e]; [|discriminate].
      destruct (check_args nq nb ps vs) as [args|e]; [|discriminate].
      destruct (Nat.ltb (List.length ps) (List.length vs)); [discriminate|].
      destruct (eval_call N next (mkCall k fname args)) as [s|e]; [|discriminate].
      intros H; inversion H; subst. exists s. auto.
    - destruct (contains "*/" t); [discriminate|].
      intros H; inversion H; subst. exists (SComment t). auto.
  Qed.

  (* existing statements are never modified *)
  Corollary step_preserves_existing nq nb ir next c ir' next' :
    builder_step N nq nb (ir, next) c = Ok (ir', next') ->
    List.length ir' = S (List.length ir) /\ firstn (List.length ir) ir' = ir /\
    forall i s, nth_error ir i = Some s -> nth_error ir' i = Some s.
  Proof.
    intros H. destruct (step_appends_one _ _ _ _ _ _ _ H) as [s [-> _]].
    split; [rewrite app_length; cbn; lia|]. split.
    - rewrite firstn_app, Nat.sub_diag, firstn_all. cbn. apply app_nil_r.
    - intros i s0 Hi. rewrite nth_error_app1; [exact Hi|]. apply nth_error_Some. congruence.
  Qed.

  (* ------------------------------------------------------------------ *)
  (** * 3. exact characterisation of the accepted instruction calls *)

  Theorem step_accepts_iff nq nb ir next name vs st' :
    builder_step N nq nb (ir, next) (BInstr name vs) = Ok st' <->
    exists k fname ps args s,
      lookup_params name = Ok (k, fname, ps) /\
      List.length vs = List.length ps /\
      Forall2 (fun pv a => convert (snd (fst pv)) (snd pv) = Some a) (combine ps vs) args /\
      Forall (in_range nq) (arg_qubits args) /\
      Forall (in_range nb) (arg_bits args) /\
      eval_call N next (mkCall k fname args) = Ok s /\
      st' = (ir ++ [s], Pos.succ next).
  Proof.
    cbn [builder_step]. split.
    - destruct (lookup_params name) as [[[k fname] ps]|e]; [|discriminate].
      destruct (check_args nq nb ps vs) as [args|e] eqn:Ec; [|discriminate].
      destruct (Nat.ltb (List.length ps) (List.length vs)) eqn:El; [discriminate|].
      destruct (eval_call N next (mkCall k fname args)) as [s|e] eqn:Ee; [|discriminate].
      intros H; inversion H; subst.
      apply check_args_ok_iff in Ec. destruct Ec as (vs1 & extra & -> & Hc & Hok).
      apply Nat.ltb_ge in El. destruct (converts_length _ _ _ Hc) as [L1 L2].
      rewrite app_length in El. assert (extra = []) by (destruct extra; cbn in El; [reflexivity|lia]).
      subst extra. rewrite app_nil_r in *.
      apply converts_Forall2 in Hc. destruct Hc as [Hl HF]. apply Forall_arg_ok in Hok.
      exists k, fname, ps, args, s. tauto.
    - intros (k & fname & ps & args & s & Hl & Hlen & HF & Hq & Hb & He & ->).
      rewrite Hl.
      assert (Hc : check_args nq nb ps vs = Ok args).
      { apply check_args_ok_iff. exists vs, []. rewrite app_nil_r. split; [reflexivity|]. split.
        - apply converts_Forall2. split; assumption.
        - apply Forall_arg_ok. split; assumption. }
      rewrite Hc, Hlen, Nat.ltb_irrefl, He. reflexivity.
  Qed.

  (* the same with eval_call eliminated: a call is accepted iff the name is
     known, the values are as many as the parameters, each has the right type,
     qubit and bit indices are in range, and the qubit arguments are pairwise
     distinct (which, for the default set, only excludes control = target) *)
  Theorem step_accepts_explicit nq nb ir next name vs :
    (exists st', builder_step N nq nb (ir, next) (BInstr name vs) = Ok st') <->
    exists k fname ps args,
      lookup_params name = Ok (k, fname, ps) /\
      List.length vs = List.length ps /\
      Forall2 (fun pv a => convert (snd (fst pv)) (snd pv) = Some a) (combine ps vs) args /\
      Forall (in_range nq) (arg_qubits args) /\
      Forall (in_range nb) (arg_bits args) /\
      znodup (arg_qubits args) = true.
  Proof.
    split.
    - intros [st' H]. apply step_accepts_iff in H.
      destruct H as (k & fname & ps & args & s & Hl & Hlen & HF & Hq & Hb & He & _).
      exists k, fname, ps, args. repeat split; auto.
      assert (Hc : converts ps vs args) by (apply converts_Forall2; split; assumption).
      apply (eval_call_ok_iff_nodup _ _ _ _ _ _ next Hl Hc). exists s; exact He.
    - intros (k & fname & ps & args & Hl & Hlen & HF & Hq & Hb & Hn).
      assert (Hc : converts ps vs args) by (apply converts_Forall2; split; assumption).
      apply (eval_call_ok_iff_nodup _ _ _ _ _ _ next Hl Hc) in Hn. destruct Hn as [s He].
      exists (ir ++ [s], Pos.succ next). apply step_accepts_iff.
      exists k, fname, ps, args, s. repeat split; auto.
  Qed.

  (* the refusal of a well-typed, in-range call: ValueError, control = target *)
  Theorem step_ctrl_clash nq nb ir next name vs k fname ps args :
    lookup_params name = Ok (k, fname, ps) ->
    List.length vs = List.length ps ->
    Forall2 (fun pv a => convert (snd (fst pv)) (snd pv) = Some a) (combine ps vs) args ->
    Forall (in_range nq) (arg_qubits args) -> Forall (in_range nb) (arg_bits args) ->
    znodup (arg_qubits args) = false ->
    builder_step N nq nb (ir, next) (BInstr name vs) = Err EValue /\
    k = KGate /\ In fname ctrl_names /\ exists c, arg_qubits args = [c; c].
  Proof.
    intros Hl Hlen HF Hq Hb Hn.
    assert (Hc : converts ps vs args) by (apply converts_Forall2; split; assumption).
    destruct (eval_call_default _ _ _ _ _ _ next Hl Hc) as [(s & Hs & Hn' & _)|(Hs & Hk & Hin & Hcc)];
      [congruence|].
    split; [|auto]. cbn [builder_step]. rewrite Hl.
    assert (Hca : check_args nq nb ps vs = Ok args).
    { apply check_args_ok_iff. exists vs, []. rewrite app_nil_r. split; [reflexivity|]. split; [exact Hc|].
      apply Forall_arg_ok. split; assumption. }
    rewrite Hca, Hlen, Nat.ltb_irrefl, Hs. reflexivity.
  Qed.

  (* ------------------------------------------------------------------ *)
  (** * 4. the main invariant *)

  Theorem builder_wf nq nb ir next c ir' next' :
    Forall (wf_stmt nq nb) ir ->
    builder_step N nq nb (ir, next) c = Ok (ir', next') ->
    Forall (wf_stmt nq nb) ir'.
  Proof.
    intros Hwf H. destruct c as [name vs|t].
    - apply step_accepts_iff in H.
      destruct H as (k & fname & ps & args & s & Hl & Hlen & HF & Hq & Hb & He & Hst).
      inversion Hst; subst. apply Forall_app. split; [exact Hwf|]. constructor; [|constructor].
      assert (Hc : converts ps vs args) by (apply converts_Forall2; split; assumption).
      destruct (eval_call_default _ _ _ _ _ _ next Hl Hc) as [(s' & Hs & _ & Hw)|(Hs & _)];
        rewrite Hs in He; [|discriminate].
      inversion He; subst. apply Hw. apply Forall_arg_ok. split; assumption.
    - cbn [builder_step] in H. destruct (contains "*/" t) eqn:Ect; [discriminate|].
      inversion H; subst. apply Forall_app. split; [exact Hwf|]. constructor; [|constructor].
      unfold wf_stmt. cbn [stmt_qubits stmt_bits stmt_ginfo].
      repeat split; try constructor; try discriminate.
      intros t' Ht. inversion Ht; subst. exact Ect.
  Qed.

  Theorem builder_run_wf_from nq nb ir next cs ir' next' log :
    Forall (wf_stmt nq nb) ir ->
    builder_run N nq nb (ir, next) cs = ((ir', next'), log) ->
    Forall (wf_stmt nq nb) ir'.
  Proof.
    revert ir next log. induction cs as [|c cs IH]; intros ir next log Hwf H; cbn [builder_run] in H.
    - inversion H; subst. exact Hwf.
    - destruct (builder_step N nq nb (ir, next) c) as [[ir1 next1]|e] eqn:Es.
      + destruct (builder_run N nq nb (ir1, next1) cs) as [[ir2 next2] log2] eqn:Er.
        inversion H; subst. eapply IH; [|exact Er]. eapply builder_wf; eassumption.
      + destruct (builder_run N nq nb (ir, next) cs) as [[ir2 next2] log2] eqn:Er.
        inversion H; subst. eapply IH; eassumption.
  Qed.

  (* from the empty builder, for ALL call sequences *)
  Theorem builder_run_wf nq nb next cs ir' next' log :
    builder_run N nq nb ([], next) cs = ((ir', next'), log) ->
    Forall (wf_stmt nq nb) ir'.
  Proof. apply builder_run_wf_from. constructor. Qed.

  (* ------------------------------------------------------------------ *)
  (** * 5. unknown names, comments *)

  Theorem unknown_name_refused nq nb ir next name vs :
    known_call_name name = false ->
    builder_step N nq nb (ir, next) (BInstr name vs) = Err EValue.
  Proof.
    intros H. apply lookup_params_unknown in H. cbn [builder_step]. rewrite H. reflexivity.
  Qed.

  (* ... and the builder is as it was: the run continues from the same state *)
  Theorem unknown_name_unchanged nq nb st name vs rest :
    known_call_name name = false ->
    builder_run N nq nb st (BInstr name vs :: rest) =
    (fst (builder_run N nq nb st rest), Some EValue :: snd (builder_run N nq nb st rest)).
  Proof.
    intros H. destruct st as [ir next]. cbn [builder_run].
    rewrite (unknown_name_refused nq nb ir next name vs H).
    destruct (builder_run N nq nb (ir, next) rest) as [st' log]. reflexivity.
  Qed.

  (* conversely a known name is never refused for its name: if the name is
     known, lookup succeeds *)
  Theorem known_name_found name :
    known_call_name name = true -> exists k fname ps, lookup_params name = Ok (k, fname, ps).
  Proof.
    intros H. destruct (lookup_params name) as [[[k fname] ps]|e] eqn:El.
    - exists k, fname, ps. reflexivity.
    - pose proof (lookup_params_err _ _ El); subst e.
      apply lookup_params_unknown in El. congruence.
  Qed.

  Theorem comment_refused_iff nq nb ir next t :
    (exists e, builder_step N nq nb (ir, next) (BComment t) = Err e) <-> contains "*/" t = true.
  Proof.
    cbn [builder_step]. destruct (contains "*/" t); split.
    - reflexivity.
    - intros _. exists EValue. reflexivity.
    - intros [e He]. discriminate.
    - discriminate.
  Qed.

  Theorem comment_step nq nb ir next t :
    builder_step N nq nb (ir, next) (BComment t) =
    if contains "*/" t then Err EValue else Ok (ir ++ [SComment t], next).
  Proof. reflexivity. Qed.

  (* ------------------------------------------------------------------ *)
  (** * 6. arity *)

  (* more values than parameters: the per-parameter check runs first (it looks
     only at the first [length ps] values); if it passes, TypeError *)
  Theorem too_many_args_step nq nb ir next name vs k fname ps :
    lookup_params name = Ok (k, fname, ps) ->
    (List.length ps < List.length vs)%nat ->
    builder_step N nq nb (ir, next) (BInstr name vs) =
    match check_args nq nb ps vs with Err e => Err e | Ok _ => Err EType end.
  Proof.
    intros Hl Hlen. cbn [builder_step]. rewrite Hl.
    destruct (check_args nq nb ps vs) as [args|e]; [|reflexivity].
    apply Nat.ltb_lt in Hlen. rewrite Hlen. reflexivity.
  Qed.

  Theorem too_many_args_refused nq nb ir next name vs k fname ps :
    lookup_params name = Ok (k, fname, ps) ->
    (List.length ps < List.length vs)%nat ->
    (exists e, builder_step N nq nb (ir, next) (BInstr name vs) = Err e /\ (e = EType \/ e = EIndex)) /\
    (forall args, converts ps (firstn (List.length ps) vs) args -> Forall (arg_ok nq nb) args ->
       builder_step N nq nb (ir, next) (BInstr name vs) = Err EType).
  Proof.
    intros Hl Hlen. rewrite (too_many_args_step nq nb ir next name vs k fname ps Hl Hlen). split.
    - destruct (check_args nq nb ps vs) as [args|e] eqn:Ec; [exists EType; auto|].
      exists e. split; [reflexivity|]. exact (check_args_err_kind _ _ _ _ _ Ec).
    - intros args Hc Hok.
      assert (Hca : check_args nq nb ps vs = Ok args).
      { apply check_args_ok_iff. exists (firstn (List.length ps) vs), (skipn (List.length ps) vs).
        rewrite firstn_skipn. auto. }
      rewrite Hca. reflexivity.
  Qed.

  (* fewer values than parameters: always refused; IndexError provided the
     given ones pass *)
  Theorem missing_args_refused nq nb ir next name vs k fname ps :
    lookup_params name = Ok (k, fname, ps) ->
    (List.length vs < List.length ps)%nat ->
    (exists e, builder_step N nq nb (ir, next) (BInstr name vs) = Err e /\ (e = EType \/ e = EIndex)) /\
    (forall args, converts (firstn (List.length vs) ps) vs args -> Forall (arg_ok nq nb) args ->
       builder_step N nq nb (ir, next) (BInstr name vs) = Err EIndex).
  Proof.
    intros Hl Hlen. cbn [builder_step]. rewrite Hl. split.
    - destruct (check_args_short nq nb ps vs Hlen) as [e He]. rewrite He.
      exists e. split; [reflexivity|]. exact (check_args_err_kind _ _ _ _ _ He).
    - intros args Hc Hok.
      rewrite <- (firstn_skipn (List.length vs) ps) at 1.
      rewrite (check_args_missing nq nb _ (skipn (List.length vs) ps) vs args Hc Hok); [reflexivity|].
      intros Hnil. apply (f_equal (@List.length _)) in Hnil. rewrite skipn_length in Hnil.
      cbn in Hnil. lia.
  Qed.

  (* ------------------------------------------------------------------ *)
  (** * 7. indices out of range (negative ones included) *)

  (* an argument out of its register at some position: the call is refused;
     with IndexError when the values before it have the right types *)
  Theorem bad_index_refused nq nb ir next name k fname ps1 n pk ps2 vs1 v vs2 a :
    lookup_params name = Ok (k, fname, ps1 ++ (n, pk) :: ps2) ->
    List.length vs1 = List.length ps1 ->
    convert pk v = Some a -> ~ arg_ok nq nb a ->
    (exists e, builder_step N nq nb (ir, next) (BInstr name (vs1 ++ v :: vs2)) = Err e /\
               (e = EIndex \/ e = EType)) /\
    ((exists args1, converts ps1 vs1 args1) ->
     builder_step N nq nb (ir, next) (BInstr name (vs1 ++ v :: vs2)) = Err EIndex).
  Proof.
    intros Hl Hlen Hc Hbad. cbn [builder_step]. rewrite Hl.
    destruct (check_args_out_of_bounds nq nb ps1 n pk ps2 vs1 v vs2 a Hlen Hc Hbad) as [[e [He Hk]] Himp].
    split.
    - rewrite He. exists e. auto.
    - intros Hex. rewrite (Himp Hex). reflexivity.
  Qed.

  Theorem negative_index_refused nq nb ir next name k fname ps1 n ps2 vs1 v vs2 q :
    lookup_params name = Ok (k, fname, ps1 ++ (n, KQ) :: ps2) ->
    List.length vs1 = List.length ps1 ->
    convert KQ v = Some (AQ q) -> (q < 0 \/ nq <= q)%Z ->
    (exists e, builder_step N nq nb (ir, next) (BInstr name (vs1 ++ v :: vs2)) = Err e /\
               (e = EIndex \/ e = EType)) /\
    ((exists args1, converts ps1 vs1 args1) ->
     builder_step N nq nb (ir, next) (BInstr name (vs1 ++ v :: vs2)) = Err EIndex).
  Proof.
    intros Hl Hlen Hc Hq. eapply bad_index_refused; try eassumption.
    cbn [arg_ok]. unfold in_range. lia.
  Qed.

  Theorem bad_bit_index_refused nq nb ir next name k fname ps1 n ps2 vs1 v vs2 b :
    lookup_params name = Ok (k, fname, ps1 ++ (n, KB) :: ps2) ->
    List.length vs1 = List.length ps1 ->
    convert KB v = Some (AB b) -> (b < 0 \/ nb <= b)%Z ->
    (exists e, builder_step N nq nb (ir, next) (BInstr name (vs1 ++ v :: vs2)) = Err e /\
               (e = EIndex \/ e = EType)) /\
    ((exists args1, converts ps1 vs1 args1) ->
     builder_step N nq nb (ir, next) (BInstr name (vs1 ++ v :: vs2)) = Err EIndex).
  Proof.
    intros Hl Hlen Hc Hb. eapply bad_index_refused; try eassumption.
    cbn [arg_ok]. unfold in_range. lia.
  Qed.

  (* the commonest instance: the first argument of any instruction is a qubit;
     a negative or too large first index is an IndexError, whatever follows *)
  Corollary first_qubit_out_of_range nq nb ir next name k fname n ps2 v vs2 q :
    lookup_params name = Ok (k, fname, (n, KQ) :: ps2) ->
    convert KQ v = Some (AQ q) -> (q < 0 \/ nq <= q)%Z ->
    builder_step N nq nb (ir, next) (BInstr name (v :: vs2)) = Err EIndex.
  Proof.
    intros Hl Hc Hq.
    destruct (negative_index_refused nq nb ir next name k fname [] n ps2 [] v vs2 q Hl eq_refl Hc Hq)
      as [_ H].
    apply H. exists []. constructor.
  Qed.

  (* ------------------------------------------------------------------ *)
  (** * 1. rejected calls have no effect whatsoever *)

  Definition is_none {A} (o : option A) : bool := match o with None => true | Some _ => false end.

  (* the calls whose log entry is None *)
  Definition accepted_by_log (cs : list (bcall T)) (log : list (option err)) : list (bcall T) :=
    map fst (filter (fun cl => is_none (snd cl)) (combine cs log)).

  Lemma builder_run_cons nq nb st c cs :
    builder_run N nq nb st (c :: cs) =
    match builder_step N nq nb st c with
    | Err e => (fst (builder_run N nq nb st cs), Some e :: snd (builder_run N nq nb st cs))
    | Ok st1 => (fst (builder_run N nq nb st1 cs), None :: snd (builder_run N nq nb st1 cs))
    end.
  Proof.
    cbn [builder_run]. destruct (builder_step N nq nb st c) as [st1|e].
    - destruct (builder_run N nq nb st1 cs) as [st' log]. reflexivity.
    - destruct (builder_run N nq nb st cs) as [st' log]. reflexivity.
  Qed.

  Theorem step_reject_unchanged nq nb st cs st' log :
    builder_run N nq nb st cs = (st', log) ->
    List.length log = List.length cs /\
    builder_run N nq nb st (accepted_by_log cs log) =
      (st', repeat None (List.length (accepted_by_log cs log))).
  Proof.
    revert st st' log. induction cs as [|c cs IH]; intros st st' log H.
    - cbn in H. inversion H; subst. split; reflexivity.
    - rewrite builder_run_cons in H.
      destruct (builder_step N nq nb st c) as [st1|e] eqn:Es.
      + destruct (builder_run N nq nb st1 cs) as [st2 log2] eqn:Er. cbn [fst snd] in H.
        inversion H; subst. destruct (IH _ _ _ Er) as [Hl Hrun].
        split; [cbn [List.length]; congruence|].
        unfold accepted_by_log. cbn [combine filter snd is_none map fst].
        fold (accepted_by_log cs log2). rewrite builder_run_cons, Es, Hrun. reflexivity.
      + destruct (builder_run N nq nb st cs) as [st2 log2] eqn:Er. cbn [fst snd] in H.
        inversion H; subst. destruct (IH _ _ _ Er) as [Hl Hrun].
        split; [cbn [List.length]; congruence|].
        unfold accepted_by_log. cbn [combine filter snd is_none map fst].
        fold (accepted_by_log cs log2). exact Hrun.
  Qed.

  (* acceptance does not depend on the builder's state: a static filter *)
  Lemma step_state_indep nq nb ir next ir2 next2 c :
    match builder_step N nq nb (ir, next) c with
    | Ok _ => exists st2, builder_step N nq nb (ir2, next2) c = Ok st2
    | Err e => builder_step N nq nb (ir2, next2) c = Err e
    end.
  Proof.
    destruct c as [name vs|t]; cbn [builder_step].
    - destruct (lookup_params name) as [[[k fname] ps]|e]; [|reflexivity].
      destruct (check_args nq nb ps vs) as [args|e]; [|reflexivity].
      destruct (Nat.ltb (List.length ps) (List.length vs)); [reflexivity|].
      rewrite (eval_call_oid next next2).
      destruct (eval_call N next (mkCall k fname args)) as [s|e]; [eexists|]; reflexivity.
    - destruct (contains "*/" t); [reflexivity|eexists; reflexivity].
  Qed.

  Definition accepts (nq nb : Z) (c : bcall T) : bool :=
    match builder_step N nq nb ([], 1%positive) c with Ok _ => true | Err _ => false end.

  Lemma accepts_spec nq nb ir next c :
    accepts nq nb c = match builder_step N nq nb (ir, next) c with Ok _ => true | Err _ => false end.
  Proof.
    unfold accepts. pose proof (step_state_indep nq nb [] 1%positive ir next c) as H.
    destruct (builder_step N nq nb ([], 1%positive) c) as [st|e].
    - destruct H as [st2 H]. rewrite H. reflexivity.
    - rewrite H. reflexivity.
  Qed.

  (* the accepted calls are a state-independent filter of the call sequence,
     the log says exactly which, and only they matter *)
  Theorem step_reject_unchanged_static nq nb st cs st' log :
    builder_run N nq nb st cs = (st', log) ->
    accepted_by_log cs log = filter (accepts nq nb) cs /\
    map is_none log = map (accepts nq nb) cs /\
    builder_run N nq nb st (filter (accepts nq nb) cs) =
      (st', repeat None (List.length (filter (accepts nq nb) cs))).
  Proof.
    intros H. assert (Ha : accepted_by_log cs log = filter (accepts nq nb) cs /\
                           map is_none log = map (accepts nq nb) cs).
    { revert st st' log H. induction cs as [|c cs IH]; intros [ir next] st' log H.
      - cbn in H. inversion H; subst. split; reflexivity.
      - rewrite builder_run_cons in H. cbn [filter map]. rewrite (accepts_spec nq nb ir next c).
        destruct (builder_step N nq nb (ir, next) c) as [[ir1 next1]|e] eqn:Es.
        + destruct (builder_run N nq nb (ir1, next1) cs) as [st2 log2] eqn:Er. cbn [fst snd] in H.
          inversion H; subst. destruct (IH _ _ _ Er) as [IH1 IH2].
          unfold accepted_by_log. cbn [combine filter snd is_none map fst].
          fold (accepted_by_log cs log2). rewrite IH1, IH2. split; reflexivity.
        + destruct (builder_run N nq nb (ir, next) cs) as [st2 log2] eqn:Er. cbn [fst snd] in H.
          inversion H; subst. destruct (IH _ _ _ Er) as [IH1 IH2].
          unfold accepted_by_log. cbn [combine filter snd is_none map fst].
          fold (accepted_by_log cs log2). rewrite IH1, IH2. split; reflexivity. }
    destruct Ha as [Ha1 Ha2]. split; [exact Ha1|]. split; [exact Ha2|].
    rewrite <- Ha1. exact (proj2 (step_reject_unchanged _ _ _ _ _ _ H)).
  Qed.

  (* ------------------------------------------------------------------ *)
  (** * 8. snapshots are prefixes *)

  Theorem builder_run_app nq nb st cs1 cs2 :
    builder_run N nq nb st (cs1 ++ cs2) =
    (fst (builder_run N nq nb (fst (builder_run N nq nb st cs1)) cs2),
     snd (builder_run N nq nb st cs1) ++ snd (builder_run N nq nb (fst (builder_run N nq nb st cs1)) cs2)).
  Proof.
    revert st. induction cs1 as [|c cs1 IH]; intros st.
    - cbn [app builder_run fst snd]. destruct (builder_run N nq nb st cs2); reflexivity.
    - cbn [app]. rewrite !builder_run_cons.
      destruct (builder_step N nq nb st c) as [st1|e]; cbn [fst snd]; rewrite IH; reflexivity.
  Qed.

  (* the IR only grows, by one statement per accepted call; [next] is the
     number of accepted instruction calls *)
  Theorem builder_run_prefix nq nb ir next cs ir' next' log :
    builder_run N nq nb (ir, next) cs = ((ir', next'), log) ->
    exists ext, ir' = ir ++ ext /\
                List.length ext = List.length (filter is_none log) /\
                (Pos.le next next').
  Proof.
    revert ir next log. induction cs as [|c cs IH]; intros ir next log H.
    - cbn in H. inversion H; subst. exists []. rewrite app_nil_r. repeat split. apply Pos.le_refl.
    - rewrite builder_run_cons in H.
      destruct (builder_step N nq nb (ir, next) c) as [[ir1 next1]|e] eqn:Es.
      + destruct (builder_run N nq nb (ir1, next1) cs) as [[ir2 next2] log2] eqn:Er.
        cbn [fst snd] in H. inversion H; subst.
        destruct (IH _ _ _ Er) as (ext & -> & Hlen & Hle).
        destruct (step_appends_one _ _ _ _ _ _ _ Es) as (s & -> & Hn).
        exists (s :: ext). rewrite <- app_assoc. cbn [app filter is_none List.length].
        repeat split; [congruence|]. destruct c; subst next1; [|exact Hle].
        eapply Pos.le_trans; [|exact Hle]. apply Pos.lt_le_incl, Pos.lt_succ_diag_r.
      + destruct (builder_run N nq nb (ir, next) cs) as [[ir2 next2] log2] eqn:Er.
        cbn [fst snd] in H. inversion H; subst.
        destruct (IH _ _ _ Er) as (ext & -> & Hlen & Hle).
        exists ext. cbn [filter is_none]. auto.
  Qed.

  (* a snapshot taken after cs1 is a prefix of the state after cs1 ++ cs2, and
     every statement of the snapshot is found unchanged at the same position *)
  Theorem snapshot_prefix nq nb st cs1 cs2 :
    let snap := fst (fst (builder_run N nq nb st cs1)) in
    let later := fst (fst (builder_run N nq nb st (cs1 ++ cs2))) in
    exists ext, later = snap ++ ext /\
                forall i s, nth_error snap i = Some s -> nth_error later i = Some s.
  Proof.
    intros snap later. subst snap later. rewrite builder_run_app. cbn [fst].
    destruct (builder_run N nq nb st cs1) as [[ir1 next1] log1]. cbn [fst].
    destruct (builder_run N nq nb (ir1, next1) cs2) as [[ir2 next2] log2] eqn:Er. cbn [fst].
    destruct (builder_run_prefix _ _ _ _ _ _ _ _ Er) as (ext & -> & _).
    exists ext. split; [reflexivity|].
    intros i s Hi. rewrite nth_error_app1; [exact Hi|]. apply nth_error_Some. congruence.
  Qed.
End BuilderP.

Print Assumptions step_reject_unchanged.
Print Assumptions step_reject_unchanged_static.
Print Assumptions step_appends_one.
Print Assumptions step_accepts_iff.
Print Assumptions step_accepts_explicit.
Print Assumptions step_ctrl_clash.
Print Assumptions eval_call_default.
Print Assumptions builder_wf.
Print Assumptions builder_run_wf.
Print Assumptions unknown_name_refused.
Print Assumptions lookup_params_unknown.
Print Assumptions comment_refused_iff.
Print Assumptions too_many_args_refused.
Print Assumptions missing_args_refused.
Print Assumptions negative_index_refused.
Print Assumptions bad_bit_index_refused.
Print Assumptions builder_run_app.
Print Assumptions builder_run_prefix.
Print Assumptions snapshot_prefix.

(* ------------------------------------------------------------------ *)
(** * sanity: the statements are not vacuous (any T, any N) *)
Section Sanity.
  Context {T : Type} (N : Num T).

  Definition demo : list (bcall T) :=
    [ BInstr "H" [VInt 0];                       (* accepted *)
      BInstr "CNOT" [VInt 0; VInt 0];            (* control = target: ValueError *)
      BInstr "CNOT" [VInt 0; VInt (-1)];         (* negative index: IndexError *)
      BInstr "CNOT" [VInt 0; VInt 2];            (* index = register size: IndexError *)
      BInstr "Hadamard" [VBool true];            (* alias; bool is an int: accepted *)
      BInstr "H" [VStr "0"];                     (* TypeError *)
      BInstr "H" [];                             (* missing: IndexError *)
      BInstr "H" [VInt 0; VInt 1];               (* too many: TypeError *)
      BInstr "Rx" [VInt 0; VInt 1];              (* an int is not a Float: TypeError *)
      BInstr "measure" [VInt 1; VBitObj 1];      (* accepted *)
      BInstr "measure" [VInt 1; VBitObj 2];      (* bit out of range: IndexError *)
      BInstr "nope" [VInt 0];                    (* unknown: ValueError *)
      BComment "a */ b";                         (* ValueError *)
      BComment "fine";                           (* accepted *)
      BInstr "reset" [VQubitObj 1] ].            (* accepted *)

  Example demo_log :
    snd (builder_run N 2 2 ([], 1%positive) demo) =
    [None; Some EValue; Some EIndex; Some EIndex; None; Some EType; Some EIndex; Some EType;
     Some EType; None; Some EIndex; Some EValue; Some EValue; None; None].
  Proof. reflexivity. Qed.

  Example demo_state :
    List.length (fst (fst (builder_run N 2 2 ([], 1%positive) demo))) = 5%nat /\
    snd (fst (builder_run N 2 2 ([], 1%positive) demo)) = 5%positive.
  Proof. split; reflexivity. Qed.
End Sanity.
