(* SemAllP.v — property C05 in one theorem: ANY sequence of the four kinds of pass (decompose, replace, merge, map)
   leaves a circuit that does the same operation as the original one, up to a global phase and modulo the
   accumulated permutation of the qubits, in the Kraus-operator semantics of Theory/Kraus.v (gates, measurements,
   resets, comments; every assignment of outcomes).

   1. [same_operation_perm f n ir ir']: ir' does what ir does, on the qubits relabelled by f
        effects relabelled by f, and K' = z . P K P^T entry-wise (P the permutation of basis indices of f, |z| = 1)
      [perm_idx_id], [perm_idx_compose], [perm_on_id], [perm_on_compose]
      [same_operation_perm_id] (<->), [same_operation_perm_refl], [same_operation_perm_trans],
      [same_operation_then_perm], [perm_then_same_operation], [same_operation_perm_PMPt] (matrix form)
   2. the numeric instances.  The decomposition theorems are stated at RNum, the merging theorem at RNumX (RNum with
      the two roundings replaced by the identity).  [decompose_aba_X], [decompose_mckay_X], [replace_X],
      [check_replacement_X], ...: everything except the CNOT decomposer and the merger is THE SAME FUNCTION at both
      instances, so the run below is the run of the model at the single instance RNumX for every sequence that
      does not contain PDecompose DecCNOT ([run_passes_all_uniform]); for the CNOT decomposer (which composes two
      rotations with the rounding) a hypothesis is carried ([decompose_cnot_X], [round_free]).
   3. [pass_all], [run_pass_all], [pass_all_ok], [pass_perm], [pass_all_same_operation] (one pass);
      [run_passes_all], [passes_all_ok], [perm_of_run], [perm_of];
      THE THEOREM [run_passes_all_same_operation], its corollaries for a run that ends without exception
      [run_passes_all_same_operation_finished] and at the single instance RNumX
      [run_passes_X_same_operation]; without maps [run_passes_all_no_map_same_operation]; two-pass corollaries
      [decompose_then_map], [map_then_merge]; [remap_keeps_ops_nodup].
   4. non-vacuity: [all_ir0] (three qubits: a named X on q1, measure q2, reset q0) through
      map by a 3-cycle; merge; map by the 3-cycle again; McKay or Z-X-Z decomposition: every hypothesis discharged,
      the accumulated permutation is the 3-cycle twice, the circuit denotes an operator for every outcome
      ([all_example]); the first three passes end without exception ([all_example_finished], with [perm_of]);
      SemDecP's demo_ir (with a CNOT) mapped and then decomposed by any of the three decomposers, the CNOT
      decomposer included ([demo_map_then_decompose]).

   No hypothesis beyond those of the per-pass theorems is added; see the comments at [pass_all_ok]. *)
From Coq Require Import Reals ZArith NArith List Bool Lia Lra Arith.
Import ListNotations.
From OSQ Require Import Num IR Bits Construct DefaultTable Matrix Check ABA Merge McKay CNOTDec Decompose Remap
     RTrig RNum SU2 Kraus.
From OSQ Require Import BitsP ConstructP MatrixP CheckP EmbedP DecomposeP DefaultP ABAP ComposeP CNOTP McKayP
     MergeP RemapP SemBaseP SemP SemDecP SemMergeP SemRemapP.
From Coq Require String.
Close Scope string_scope.
Close Scope N_scope.
Close Scope R_scope.
Open Scope nat_scope.

(* ================================================================== *)
(* 1. the relation                                                     *)

(* ir' does what ir does on a register of n qubits whose qubits are relabelled by f: the same measurements and
   resets in the same order, on the relabelled qubits (bits and axes untouched); and for every assignment of
   outcomes for which ir denotes an operator K, ir' denotes an operator K' with
       K' [P r, P c] = z * K [r, c]         (P = perm_idx f n, the basis index with bit q moved to bit f q)
   for one unit complex number z, i.e. K' = z . P K P^T ([same_operation_perm_PMPt]). *)
Definition same_operation_perm (f : Z -> Z) (n : Z) (ir ir' : list (stmt R)) : Prop :=
  effects ir' = map (relabel_effect f) (effects ir) /\
  forall o K, kraus n o ir = Ok K ->
    exists K', kraus n o ir' = Ok K' /\
      exists z, unit_c z /\
        forall r c, r < zpow2 n -> c < zpow2 n ->
          mget RNum K' (perm_idx f n r) (perm_idx f n c) = cmul RNum z (mget RNum K r c).

(* ---- permutations of the register and of the basis indices ---- *)

Lemma perm_on_id n : perm_on n (fun q => q).
Proof. split; auto. Qed.

Lemma perm_on_compose n f g : perm_on n f -> perm_on n g -> perm_on n (fun q => g (f q)).
Proof.
  intros [Hf1 Hf2] [Hg1 Hg2]. split.
  - intros q Hq. apply Hg1, Hf1, Hq.
  - intros q1 q2 H1 H2 E. apply Hf2; [exact H1|exact H2|].
    apply Hg2; [apply Hf1, H1|apply Hf1, H2|exact E].
Qed.

(* every bit position below n is the image of a qubit of the register *)
Lemma perm_on_onto f n b : perm_on n f -> (b < Z.to_N n)%N ->
  exists q, (0 <= q < n)%Z /\ b = Z.to_N (f q).
Proof.
  intros Hp Hb. pose proof (perm_qs_onto f n b Hp Hb) as Hin.
  unfold perm_qs in Hin. apply in_map_iff in Hin. destruct Hin as [i [E Hi]]. apply in_seq in Hi.
  exists (Z.of_nat i). split; [lia|now symmetry].
Qed.

Lemma perm_ket_high f n r b : perm_on n f -> (Z.to_N n <= b)%N -> N.testbit (perm_ket f n r) b = false.
Proof.
  intros Hp Hb. apply perm_ket_out. intros Hin. pose proof (perm_qs_lt f n b Hp Hin). lia.
Qed.

Lemma perm_ket_id n r : (r < 2 ^ Z.to_N n)%N -> perm_ket (fun q => q) n r = r.
Proof.
  intros Hr. apply N.bits_inj. intros b.
  destruct (N.lt_ge_cases b (Z.to_N n)) as [Hlt|Hge].
  - assert (Hq : (0 <= Z.of_N b < n)%Z) by lia.
    pose proof (perm_ket_bit (fun q => q) n r (Z.of_N b) (perm_on_id n) Hq) as H.
    cbv beta in H. now rewrite N2Z.id in H.
  - rewrite (perm_ket_high _ n r b (perm_on_id n) Hge).
    symmetry. exact (proj1 (lt_pow2_bits r _) Hr b Hge).
Qed.

(* the identity relabelling does not move the basis indices *)
Lemma perm_idx_id n r : r < zpow2 n -> perm_idx (fun q => q) n r = r.
Proof.
  intros Hr. unfold perm_idx. rewrite perm_ket_id; [apply Nnat.Nat2N.id|].
  rewrite <- of_nat_zpow2. lia.
Qed.

Lemma perm_ket_compose f g n r : perm_on n f -> perm_on n g ->
  perm_ket (fun q => g (f q)) n r = perm_ket g n (perm_ket f n r).
Proof.
  intros Hf Hg. pose proof (perm_on_compose n f g Hf Hg) as Hh.
  apply N.bits_inj. intros b.
  destruct (N.lt_ge_cases b (Z.to_N n)) as [Hlt|Hge].
  - destruct (perm_on_onto _ n b Hh Hlt) as [q [Hq ->]].
    rewrite (perm_ket_bit (fun q => g (f q)) n r q Hh Hq).
    rewrite (perm_ket_bit g n _ (f q) Hg (proj1 Hf q Hq)).
    now rewrite (perm_ket_bit f n r q Hf Hq).
  - now rewrite (perm_ket_high _ n r b Hh Hge), (perm_ket_high g n _ b Hg Hge).
Qed.

(* relabelling by f and then by g moves the basis indices by perm_idx f and then by perm_idx g *)
Lemma perm_idx_compose f g n r : perm_on n f -> perm_on n g ->
  perm_idx (fun q => g (f q)) n r = perm_idx g n (perm_idx f n r).
Proof.
  intros Hf Hg. unfold perm_idx. rewrite Nnat.N2Nat.id. now rewrite perm_ket_compose.
Qed.

(* ---- effects ---- *)

Lemma relabel_effect_id e : relabel_effect (fun q => q) e = e.
Proof. now destruct e. Qed.

Lemma map_relabel_effect_id l : map (relabel_effect (fun q => q)) l = l.
Proof. induction l as [|e l IH]; cbn [map]; [reflexivity|]. now rewrite relabel_effect_id, IH. Qed.

Lemma map_relabel_effect_compose f g l :
  map (relabel_effect g) (map (relabel_effect f) l) = map (relabel_effect (fun q => g (f q))) l.
Proof. rewrite map_map. apply map_ext. intros e. now destruct e. Qed.

(* ---- the identity relabelling: same_operation ---- *)

Theorem same_operation_perm_id n ir ir' :
  same_operation n ir ir' <-> same_operation_perm (fun q => q) n ir ir'.
Proof.
  split.
  - intros [He Hk]. split; [now rewrite map_relabel_effect_id|].
    intros o K HK. destruct (Hk o K HK) as [K' [HK' [z [Hz E]]]].
    exists K'. split; [exact HK'|]. exists z. split; [exact Hz|].
    intros r c Hr Hc. rewrite !perm_idx_id by assumption. rewrite E. apply mget_mscale.
  - intros [He Hk]. split; [now rewrite map_relabel_effect_id in He|].
    intros o K HK. destruct (Hk o K HK) as [K' [HK' [z [Hz E]]]].
    exists K'. split; [exact HK'|]. exists z. split; [exact Hz|].
    apply (mat_ext RNum (zpow2 n) (zpow2 n)).
    + exact (kraus_wf _ _ _ _ HK').
    + apply mscale_wf. exact (kraus_wf _ _ _ _ HK).
    + intros r c Hr Hc. rewrite mget_mscale. rewrite <- (E r c Hr Hc). now rewrite !perm_idx_id by assumption.
Qed.

Corollary same_operation_perm_refl n ir : same_operation_perm (fun q => q) n ir ir.
Proof. apply same_operation_perm_id, same_operation_refl. Qed.

(* ---- transitivity: the relabellings compose ---- *)

Theorem same_operation_perm_trans f g n a b c :
  perm_on n f -> perm_on n g ->
  same_operation_perm f n a b -> same_operation_perm g n b c ->
  same_operation_perm (fun q => g (f q)) n a c.
Proof.
  intros Hf Hg [He1 Hk1] [He2 Hk2]. split.
  - now rewrite He2, He1, map_relabel_effect_compose.
  - intros o K HK.
    destruct (Hk1 o K HK) as [K1 [HK1 [z1 [Hz1 E1]]]].
    destruct (Hk2 o K1 HK1) as [K2 [HK2 [z2 [Hz2 E2]]]].
    exists K2. split; [exact HK2|]. exists (cmul RNum z2 z1). split; [now apply unit_c_mul|].
    intros r c0 Hr Hc. rewrite !(perm_idx_compose f g n) by assumption.
    rewrite (E2 _ _ (perm_idx_lt f n r Hf) (perm_idx_lt f n c0 Hf)).
    rewrite (E1 r c0 Hr Hc). apply cmulR_assoc.
Qed.

(* the two special cases used along a run: a pass that does not relabel, before or after one that does *)
Corollary same_operation_then_perm f n a b c :
  perm_on n f -> same_operation n a b -> same_operation_perm f n b c -> same_operation_perm f n a c.
Proof.
  intros Hf H1 H2. apply same_operation_perm_id in H1.
  exact (same_operation_perm_trans (fun q => q) f n a b c (perm_on_id n) Hf H1 H2).
Qed.

Corollary perm_then_same_operation f n a b c :
  perm_on n f -> same_operation_perm f n a b -> same_operation n b c -> same_operation_perm f n a c.
Proof.
  intros Hf H1 H2. apply same_operation_perm_id in H2.
  exact (same_operation_perm_trans f (fun q => q) n a b c Hf (perm_on_id n) H1 H2).
Qed.

(* the relation depends on f only through its values *)
Lemma perm_idx_ext f g n r : (forall q, f q = g q) -> perm_idx f n r = perm_idx g n r.
Proof.
  intros E. unfold perm_idx, perm_ket, perm_qs. do 2 f_equal. apply map_ext. intros i. now rewrite E.
Qed.

Lemma same_operation_perm_ext f g n a b :
  (forall q, f q = g q) -> same_operation_perm f n a b -> same_operation_perm g n a b.
Proof.
  intros E [He Hk]. split.
  - rewrite He. apply map_ext. intros [q b0 ax|q]; cbn [relabel_effect]; now rewrite E.
  - intros o K HK. destruct (Hk o K HK) as [K' [HK' [z [Hz H]]]].
    exists K'. split; [exact HK'|]. exists z. split; [exact Hz|].
    intros r c Hr Hc. rewrite <- !(perm_idx_ext f g n) by exact E. now apply H.
Qed.

(* the matrix form: K' = z . P K P^T with P the permutation matrix of f *)
Corollary same_operation_perm_PMPt f n ir ir' o K :
  perm_on n f -> same_operation_perm f n ir ir' -> kraus n o ir = Ok K ->
  exists z, unit_c z /\
    kraus n o ir' = Ok (mscale z (mmul RNum (perm_matrix f n) (mmul RNum K (transpose RNum (perm_matrix f n))))).
Proof.
  intros Hp [_ Hk] HK. destruct (Hk o K HK) as [K' [HK' [z [Hz E]]]].
  exists z. split; [exact Hz|]. rewrite HK'. f_equal.
  pose proof (kraus_wf _ _ _ _ HK) as WK. pose proof (kraus_wf _ _ _ _ HK') as WK'.
  assert (P : permutes f n (mscale z K) K').
  { intros r c Hr Hc. rewrite mget_mscale. now apply E. }
  rewrite (permutes_PMPt f n (mscale z K) K' Hp (mscale_wf _ _ _ WK) WK' P).
  now rewrite mmul_mscale_l, mmul_mscale_r.
Qed.

(* ================================================================== *)
(* 2. the two numeric instances                                        *)

(* The decomposition and replacement theorems (SemP, SemDecP) are stated at RNum, the merging theorem (SemMergeP)
   at RNumX = RNum with nround and nroundpy replaced by the identity (ComposeP).  The model rounds in exactly two
   places: Merge.compose (axis and phase of a composed rotation, used by the merger and by the CNOT decomposer)
   and QSExport.deg5.  Every other function of the model never projects the fields nround / nroundpy, so it is
   literally the same function at both instances.  The equalities below are proved by normalising both sides
   (unfolding the model's definitions and the record projections, nothing of the real numbers) and comparing. *)
Ltac norm_model :=
  cbv beta iota zeta delta [RNumX RNum
    nofZ nadd nsub nmul ndiv nneg nabs nsqrt nsin ncos ntan nacos natan2 npi nfloordiv nmod nltb nleb neqb
    ncopysign nisfinite ndegrees
    n0 n1 n2 nhalf ngtb ngeb nmax nmin nsq c0 c1 cadd csub cmul cscale cabs cdiv cis
    atol pi two_pi normalize_angle norm3 mk_axis all_finite max3abs mk_axis_checked neg_axis mk_bsr
    mk_bsr_checked mk_bsr_ax bsr_identity atol8 rtol close_r close_c close_axis eye_row unit_row eye
    mat_allclose is_identity
    pow2k eval_aexpr zaxis eval_bsrdef first_float eval_entry default_gate default_gate1
    czero cone vdot transpose_aux transpose mmul kron can1 mat_column get_matrix circuit_matrix_from
    circuit_matrix gates_matrix
    reindex_gate reindex_gates reindexed_matrix argmax_row argmax_rows argmax_entry mat_get mat_scale
    close_c_tol mat_allclose_tol equiv_up_to_phase check_replacement
    axis_comp clamp1 aba_angles rot_gate filter_identities aba_gates aba_decompose
    x90 rz mckay_gates mckay_decompose
    dg run_rule run_replacer run_decomposer decompose_loop decompose replace].

Lemma default_gate_X : default_gate RNumX = default_gate RNum.
Proof. norm_model. reflexivity. Qed.

Lemma get_matrix_X : get_matrix RNumX = get_matrix RNum.
Proof. norm_model. reflexivity. Qed.

Lemma check_replacement_X : check_replacement RNumX = check_replacement RNum.
Proof. norm_model. reflexivity. Qed.

Lemma aba_angles_X : aba_angles RNumX = aba_angles RNum.
Proof. norm_model. reflexivity. Qed.

Lemma aba_decompose_X a b : aba_decompose RNumX a b = aba_decompose RNum a b.
Proof. norm_model. reflexivity. Qed.

Lemma mckay_decompose_X : mckay_decompose RNumX = mckay_decompose RNum.
Proof. norm_model. reflexivity. Qed.

(* the decomposition loop itself (it calls check_replacement), for any decomposer callback *)
Lemma decompose_loop_X dec : decompose_loop RNumX dec = decompose_loop RNum dec.
Proof. norm_model. reflexivity. Qed.

Theorem decompose_aba_X a b : decompose RNumX (DecABA a b) = decompose RNum (DecABA a b).
Proof. norm_model. reflexivity. Qed.

Theorem decompose_mckay_X : decompose RNumX DecMcKay = decompose RNum DecMcKay.
Proof. norm_model. reflexivity. Qed.

Theorem replace_X target r : replace RNumX target r = replace RNum target r.
Proof. norm_model. reflexivity. Qed.

(* the CNOT decomposer composes X with the target rotation (Merge.compose, which rounds): at the two instances
   only its callback differs, and the loop applies the callback to the gates of the input only *)
Lemma decompose_loop_ext {T} (N : Num T) dec dec' : forall todo next done,
  (forall o g gi, In (SGate o g gi) todo -> dec g gi = dec' g gi) ->
  decompose_loop N dec next done todo = decompose_loop N dec' next done todo.
Proof.
  induction todo as [|s todo IH]; intros next done H; [reflexivity|].
  assert (Hrest : forall o g gi, In (SGate o g gi) todo -> dec g gi = dec' g gi)
    by (intros o g gi Hin; apply (H o g gi); now right).
  destruct s as [o g gi|o q b ax gi|o q gi|t]; cbn [decompose_loop]; try (apply IH; exact Hrest).
  rewrite <- (H o g gi) by now left.
  destruct (dec g gi) as [items|e]; [|reflexivity].
  destruct (check_replacement N g (map (item_gate g) items)); [|reflexivity].
  apply IH; exact Hrest.
Qed.

Theorem decompose_cnot_X ir :
  (forall o g gi, In (SGate o g gi) ir -> cnot_decompose RNumX g gi = cnot_decompose RNum g gi) ->
  decompose RNumX DecCNOT ir = decompose RNum DecCNOT ir.
Proof.
  intros H. unfold decompose. rewrite decompose_loop_X. cbn [run_decomposer].
  now apply decompose_loop_ext.
Qed.

(* ================================================================== *)
(* 3. sequences of passes of all four kinds                            *)

(* the four kinds of pass.  (The constructors of SemDecP.pass are repeated; SemDecP's own are referred to by their
   qualified names below.) *)
Inductive pass_all :=
| PDecompose (d : decomposer_id)
| PReplaceCnotHCzH (target : String.string)
| PReplaceCzHCnotH (target : String.string)
| PMerge
| PMap (l : list Z).

(* a pass of the model that returns a [result]: on an exception the circuit is the one the pass received *)
Definition atomic (ir : list (stmt R)) (r : result (list (stmt R))) : option err * list (stmt R) :=
  match r with Ok out => (None, out) | Err e => (Some e, ir) end.

(* running one pass of the MODEL: the outcome (None, or the exception raised) and the statement list it leaves.
   - decompose / replace: the model's in-place loop, at RNum, with the half rewritten list it leaves when a step
     raises (Model/Decompose.v).
   - map: Remap.remap checks the size and the coverage BEFORE any mutation (the repaired qubit_remapper.py), so on
     an exception the circuit is untouched: [atomic] is its actual behaviour.
   - merge: at RNumX (the instance of the merging theorem).  Merge.merge returns a [result] and does not describe
     the list an exception leaves (the Python mutates in place); it raises only KeyError and only when a
     statement uses a qubit outside the register ([run_merge_raises] below, MergeP.merge_key_error_iff), which
     Circuit construction excludes.  [atomic] is a CONVENTION there: for a raising merge the theorem speaks of the
     input, not of the half merged Python list. *)
Definition run_pass_all (nq : Z) (p : pass_all) (ir : list (stmt R)) : option err * list (stmt R) :=
  match p with
  | PDecompose d => decompose RNum d ir
  | PReplaceCnotHCzH target => replace RNum target RuleCnotToHCzH ir
  | PReplaceCzHCnotH target => replace RNum target RuleCzToHCnotH ir
  | PMerge => atomic ir (merge RNumX nq ir)
  | PMap l => atomic ir (remap nq l ir)
  end.

Lemma run_merge_raises nq ir e out :
  run_pass_all nq PMerge ir = (Some e, out) ->
  e = EKey /\ out = ir /\ ~ Forall (MergeP.wf_stmt nq) ir.
Proof.
  cbn [run_pass_all]. destruct (merge RNumX nq ir) as [o|e'] eqn:E; cbn [atomic]; intros H; [discriminate|].
  injection H as <- <-. pose proof (merge_err_only_key RNumX nq ir e' E) as ->.
  repeat split. now apply (merge_key_error_iff RNumX).
Qed.

(* the embedding of SemDecP's passes *)
Definition of_pass (p : SemDecP.pass) : pass_all :=
  match p with
  | SemDecP.PDecompose d => PDecompose d
  | SemDecP.PReplaceCnotHCzH t => PReplaceCnotHCzH t
  | SemDecP.PReplaceCzHCnotH t => PReplaceCzHCnotH t
  end.

Lemma run_pass_all_of_pass nq p ir : run_pass_all nq (of_pass p) ir = SemDecP.run_pass p ir.
Proof. now destruct p. Qed.

(* the hypothesis of a pass on the circuit it receives: exactly the hypotheses of the per-pass theorems
   - decompose / replace: SemDecP.pass_ok (per-gate exactness [aba_exact_ok] / [mckay_exact_ok] / [cnot_exact_ok];
     the statements named [target] are what the rule expects);
   - merge: SemMergeP.merge_same_operation's (matrix gates with distinct operands, run in the exact regime);
   - map: SemRemapP.remap_same_operation_up_to_relabelling's (the list is a permutation of its keys — remap does
     not check it, SemRemapP.remap_needs_mapping_ok_refuted —, matrix gates with distinct operands).  That the
     mapping fits the register (length l <= nq) is NOT a hypothesis: remap refuses otherwise, and a refused map
     leaves the circuit alone. *)
Definition pass_all_ok (nq : Z) (p : pass_all) (ir : list (stmt R)) : Prop :=
  match p with
  | PDecompose d => SemDecP.pass_ok (SemDecP.PDecompose d) ir
  | PReplaceCnotHCzH target => SemDecP.pass_ok (SemDecP.PReplaceCnotHCzH target) ir
  | PReplaceCzHCnotH target => SemDecP.pass_ok (SemDecP.PReplaceCzHCnotH target) ir
  | PMerge => ops_nodup ir /\ exact_run (acc0 RNumX nq) ir
  | PMap l => mapping_ok l = true /\ stmts_ops_nodup ir
  end.

(* the two phrasings of "matrix gates have distinct operands" (SemMergeP, SemRemapP) are the same *)
Lemma ops_nodup_iff ir : ops_nodup ir <-> stmts_ops_nodup ir.
Proof.
  unfold ops_nodup, stmts_ops_nodup. rewrite Forall_forall. split.
  - intros H [o g gi|o q b ax gi|o q gi|t] Hin; cbn [stmt_ops_nodup]; auto. exact (H o g gi Hin).
  - intros H o g gi Hin. exact (H _ Hin).
Qed.

(* the relabelling a pass performs: the mapping for a map, none for the others *)
Definition pass_perm (p : pass_all) : Z -> Z :=
  match p with PMap l => apply_mapping l | _ => fun q => q end.

(* ... when it ends without exception; a pass that raises has relabelled nothing *)
Definition executed_perm (p : pass_all) (r : option err) : Z -> Z :=
  match r with None => pass_perm p | Some _ => fun q => q end.

(* ONE PASS of any kind *)
Theorem pass_all_same_operation nq p ir r out :
  pass_all_ok nq p ir -> run_pass_all nq p ir = (r, out) ->
  perm_on nq (executed_perm p r) /\ same_operation_perm (executed_perm p r) nq ir out.
Proof.
  intros Hok Hrun.
  assert (Hid : same_operation nq ir out ->
                perm_on nq (fun q : Z => q) /\ same_operation_perm (fun q => q) nq ir out).
  { intros H. split; [apply perm_on_id|now apply same_operation_perm_id]. }
  destruct p as [d|target|target| |l]; cbn [pass_all_ok run_pass_all] in Hok, Hrun.
  - assert (E : executed_perm (PDecompose d) r = fun q => q) by now destruct r. rewrite E. apply Hid.
    exact (SemDecP.pass_same_operation nq (SemDecP.PDecompose d) ir r out Hok Hrun).
  - assert (E : executed_perm (PReplaceCnotHCzH target) r = fun q => q) by now destruct r. rewrite E. apply Hid.
    exact (SemDecP.pass_same_operation nq (SemDecP.PReplaceCnotHCzH target) ir r out Hok Hrun).
  - assert (E : executed_perm (PReplaceCzHCnotH target) r = fun q => q) by now destruct r. rewrite E. apply Hid.
    exact (SemDecP.pass_same_operation nq (SemDecP.PReplaceCzHCnotH target) ir r out Hok Hrun).
  - assert (E : executed_perm PMerge r = fun q => q) by now destruct r. rewrite E. apply Hid.
    destruct Hok as [Hnd Hex].
    destruct (merge RNumX nq ir) as [o|e] eqn:Em; cbn [atomic] in Hrun; injection Hrun as <- <-.
    + exact (merge_same_operation nq ir o Hnd Hex Em).
    + apply same_operation_refl.
  - destruct Hok as [Hmap Hnd].
    destruct (remap nq l ir) as [o|e] eqn:Em; cbn [atomic] in Hrun; injection Hrun as <- <-.
    + cbn [executed_perm pass_perm]. split.
      * apply apply_mapping_perm_on_ge; [exact Hmap|exact (remap_ok_fits _ _ _ _ Em)].
      * destruct (remap_same_operation_up_to_relabelling nq l ir o Hmap Em Hnd) as [He Hk].
        split; [exact He|]. intros ou K HK. destruct (Hk ou K HK) as [K' [HK' HP]].
        exists K'. split; [exact HK'|]. exists (1, 0)%R. split; [exact unit_c_one|].
        intros r c Hr Hc. rewrite (HP r c Hr Hc). symmetry. apply cmulR_1_l.
    + cbn [executed_perm]. apply Hid, same_operation_refl.
Qed.

(* a run of a list of passes, as a pipeline runs it: each pass receives what the previous one left; a pass that
   raises ends the run *)
Fixpoint run_passes_all (nq : Z) (ps : list pass_all) (ir : list (stmt R)) : option err * list (stmt R) :=
  match ps with
  | [] => (None, ir)
  | p :: ps' =>
      match run_pass_all nq p ir with
      | (None, mid) => run_passes_all nq ps' mid
      | (Some e, out) => (Some e, out)
      end
  end.

(* the hypotheses threaded along the run, as SemDecP.passes_ok: each pass under its own hypothesis on the circuit
   it actually receives *)
Fixpoint passes_all_ok (nq : Z) (ps : list pass_all) (ir : list (stmt R)) : Prop :=
  match ps with
  | [] => True
  | p :: ps' => pass_all_ok nq p ir /\ forall mid, run_pass_all nq p ir = (None, mid) -> passes_all_ok nq ps' mid
  end.

(* the accumulated relabelling of the run: the mappings of the maps that were executed, composed in the order of
   the run (the first map is applied first); the run stops at the first exception, and neither the raising pass
   nor the passes after it contribute *)
Fixpoint perm_of_run (nq : Z) (ps : list pass_all) (ir : list (stmt R)) : Z -> Z :=
  match ps with
  | [] => fun q => q
  | p :: ps' =>
      match run_pass_all nq p ir with
      | (None, mid) => fun q => perm_of_run nq ps' mid (pass_perm p q)
      | (Some _, _) => fun q => q
      end
  end.

(* the same for a run that is known to end without exception: it does not depend on the circuit *)
Fixpoint perm_of (ps : list pass_all) : Z -> Z :=
  match ps with
  | [] => fun q => q
  | p :: ps' => fun q => perm_of ps' (pass_perm p q)
  end.

Lemma perm_of_run_finished nq ps : forall ir out,
  run_passes_all nq ps ir = (None, out) -> perm_of_run nq ps ir = perm_of ps.
Proof.
  induction ps as [|p ps IH]; intros ir out H; cbn [run_passes_all perm_of_run perm_of] in *; [reflexivity|].
  destruct (run_pass_all nq p ir) as [[e|] mid]; [discriminate|].
  now rewrite (IH mid out H).
Qed.

(* THE THEOREM.  Any sequence of decompose / replace / merge / map passes, each under the hypothesis of its own
   theorem on the circuit it receives, run to its end or to the first exception: the circuit left does the same
   operation as the original one, up to a global phase, on the qubits relabelled by the maps that were executed. *)
Theorem run_passes_all_same_operation nq ps : forall ir r out,
  passes_all_ok nq ps ir -> run_passes_all nq ps ir = (r, out) ->
  perm_on nq (perm_of_run nq ps ir) /\ same_operation_perm (perm_of_run nq ps ir) nq ir out.
Proof.
  induction ps as [|p ps IH]; intros ir r out Hok Hrun; cbn [run_passes_all perm_of_run passes_all_ok] in *.
  - injection Hrun as <- <-. split; [apply perm_on_id|apply same_operation_perm_refl].
  - destruct Hok as [Hp Hrest].
    destruct (run_pass_all nq p ir) as [[e|] mid] eqn:Ep.
    + injection Hrun as <- <-.
      exact (pass_all_same_operation nq p ir (Some e) mid Hp Ep).
    + destruct (pass_all_same_operation nq p ir None mid Hp Ep) as [P1 S1]. cbn [executed_perm] in P1, S1.
      destruct (IH mid r out (Hrest mid eq_refl) Hrun) as [P2 S2].
      split; [now apply perm_on_compose|].
      exact (same_operation_perm_trans _ _ nq ir mid out P1 P2 S1 S2).
Qed.

(* a run that ends without exception: the relabelling is the composition of all the mappings of the sequence *)
Corollary run_passes_all_same_operation_finished nq ps ir out :
  passes_all_ok nq ps ir -> run_passes_all nq ps ir = (None, out) ->
  perm_on nq (perm_of ps) /\ same_operation_perm (perm_of ps) nq ir out.
Proof.
  intros Hok Hrun. rewrite <- (perm_of_run_finished nq ps ir out Hrun).
  exact (run_passes_all_same_operation nq ps ir None out Hok Hrun).
Qed.

(* a sequence without maps: plain same_operation (SemDecP.run_passes_same_operation extended by merging) *)
Definition no_map (ps : list pass_all) : Prop := forall l, ~ In (PMap l) ps.

Lemma perm_of_run_no_map nq ps : no_map ps -> forall ir, perm_of_run nq ps ir = fun q => q.
Proof.
  induction ps as [|p ps IH]; intros Hn ir; cbn [perm_of_run]; [reflexivity|].
  assert (Hn' : no_map ps) by (intros l Hin; apply (Hn l); now right).
  destruct (run_pass_all nq p ir) as [[e|] mid]; [reflexivity|].
  rewrite (IH Hn' mid). destruct p as [d|t|t| |l]; try reflexivity.
  exfalso. apply (Hn l). now left.
Qed.

Corollary run_passes_all_no_map_same_operation nq ps ir r out :
  no_map ps -> passes_all_ok nq ps ir -> run_passes_all nq ps ir = (r, out) -> same_operation nq ir out.
Proof.
  intros Hn Hok Hrun. apply same_operation_perm_id.
  rewrite <- (perm_of_run_no_map nq ps Hn ir).
  exact (proj2 (run_passes_all_same_operation nq ps ir r out Hok Hrun)).
Qed.

(* SemDecP's sequences are the special case without merge and map *)
Lemma run_passes_all_of_pass nq ps : forall ir,
  run_passes_all nq (map of_pass ps) ir = SemDecP.run_passes ps ir.
Proof.
  induction ps as [|p ps IH]; intros ir; cbn [map run_passes_all SemDecP.run_passes]; [reflexivity|].
  rewrite run_pass_all_of_pass. destruct (SemDecP.run_pass p ir) as [[e|] mid]; [reflexivity|apply IH].
Qed.

(* ---- the two-pass corollaries ---- *)

Corollary decompose_then_map nq d l ir mid out :
  SemDecP.pass_ok (SemDecP.PDecompose d) ir -> decompose RNum d ir = (None, mid) ->
  mapping_ok l = true -> stmts_ops_nodup mid -> remap nq l mid = Ok out ->
  same_operation_perm (apply_mapping l) nq ir out.
Proof.
  intros Hd Ed Hl Hnd Em.
  assert (Hrun : run_passes_all nq [PDecompose d; PMap l] ir = (None, out)).
  { cbn [run_passes_all run_pass_all]. rewrite Ed. now rewrite Em. }
  refine (proj2 (run_passes_all_same_operation_finished nq [PDecompose d; PMap l] ir out _ Hrun)).
  cbn [passes_all_ok pass_all_ok run_pass_all]. split; [exact Hd|].
  intros mid' E. rewrite Ed in E. injection E as <-. split; [now split|]. intros; exact I.
Qed.

Corollary map_then_merge nq l ir mid out :
  mapping_ok l = true -> stmts_ops_nodup ir -> remap nq l ir = Ok mid ->
  ops_nodup mid -> exact_run (acc0 RNumX nq) mid -> merge RNumX nq mid = Ok out ->
  same_operation_perm (apply_mapping l) nq ir out.
Proof.
  intros Hl Hnd Em Hnd' Hex Eg.
  assert (Hrun : run_passes_all nq [PMap l; PMerge] ir = (None, out)).
  { cbn [run_passes_all run_pass_all]. rewrite Em. cbn [atomic]. now rewrite Eg. }
  refine (proj2 (run_passes_all_same_operation_finished nq [PMap l; PMerge] ir out _ Hrun)).
  cbn [passes_all_ok pass_all_ok run_pass_all]. split; [now split|].
  intros mid' E. rewrite Em in E. injection E as <-. split; [now split|]. intros; exact I.
Qed.

(* the operand hypothesis of a map is stable under a map: relabelling by an injective function keeps operand
   lists duplicate-free, so a map can follow a map without a new hypothesis *)
Lemma remap_keeps_ops_nodup nq l ir out :
  mapping_ok l = true -> remap nq l ir = Ok out -> stmts_ops_nodup ir -> stmts_ops_nodup out.
Proof.
  intros Hl Em Hnd. rewrite (remap_relabels _ _ _ _ Em).
  pose proof (remap_ok_covered _ _ _ _ Em) as Hcov.
  pose proof (apply_mapping_perm_on l Hl) as [_ Hinj].
  unfold stmts_ops_nodup in *. rewrite Forall_forall in *. intros s' Hs'.
  apply in_map_iff in Hs'. destruct Hs' as [s [<- Hs]].
  pose proof (Hnd s Hs) as Hs1. pose proof (Hcov s Hs) as Hc.
  destruct s as [o g gi|o q b ax gi|o q gi|t]; cbn [remap_stmt stmt_ops_nodup] in *; auto.
  apply mat_ops_nodup_map; [|exact Hs1].
  intros x y Hx Hy E.
  assert (Hin : forall z, In z (gate_qubits g) -> (0 <= z < Z.of_nat (length l))%Z).
  { intros z Hz. cbn [stmt_all_qubits] in Hc. rewrite Forall_forall in Hc.
    assert (Hz' : In z (gate_qubits g ++ ginfo_qubits gi)) by (apply in_or_app; now left).
    apply Hc in Hz'. apply covered_iff in Hz'. exact Hz'. }
  apply Hinj; auto.
Qed.

(* ---- the run at the single instance RNumX ---- *)

(* The run above takes each pass at the instance of its theorem (decompose / replace at RNum, merge at RNumX).  By
   part 2 it IS the run of the model at the single instance RNumX, except for the CNOT decomposer, whose callback
   composes two rotations with the rounding to 7 decimals: for it we carry the hypothesis that the rounding does
   not change its proposal on the gates of the circuit it receives (for instance SemDecP.cnot_gates_R_X under
   [rounding_harmless]).  The converse choice - everything at RNum - is not available: the merging theorem does
   not hold with the rounding (ComposeP.compose_RNum_vs_RNumX measures the difference). *)
Definition run_pass_X (nq : Z) (p : pass_all) (ir : list (stmt R)) : option err * list (stmt R) :=
  match p with
  | PDecompose d => decompose RNumX d ir
  | PReplaceCnotHCzH target => replace RNumX target RuleCnotToHCzH ir
  | PReplaceCzHCnotH target => replace RNumX target RuleCzToHCnotH ir
  | PMerge => atomic ir (merge RNumX nq ir)
  | PMap l => atomic ir (remap nq l ir)
  end.

Definition round_free (p : pass_all) (ir : list (stmt R)) : Prop :=
  match p with
  | PDecompose DecCNOT =>
      forall o g gi, In (SGate o g gi) ir -> cnot_decompose RNumX g gi = cnot_decompose RNum g gi
  | _ => True
  end.

Lemma run_pass_X_eq nq p ir : round_free p ir -> run_pass_X nq p ir = run_pass_all nq p ir.
Proof.
  destruct p as [[a b| |]|target|target| |l]; cbn [round_free run_pass_X run_pass_all]; intros H.
  - now rewrite decompose_aba_X.
  - now rewrite decompose_mckay_X.
  - now apply decompose_cnot_X.
  - now rewrite replace_X.
  - now rewrite replace_X.
  - reflexivity.
  - reflexivity.
Qed.

Fixpoint run_passes_X (nq : Z) (ps : list pass_all) (ir : list (stmt R)) : option err * list (stmt R) :=
  match ps with
  | [] => (None, ir)
  | p :: ps' =>
      match run_pass_X nq p ir with
      | (None, mid) => run_passes_X nq ps' mid
      | (Some e, out) => (Some e, out)
      end
  end.

Fixpoint passes_round_free (nq : Z) (ps : list pass_all) (ir : list (stmt R)) : Prop :=
  match ps with
  | [] => True
  | p :: ps' => round_free p ir /\ forall mid, run_pass_all nq p ir = (None, mid) -> passes_round_free nq ps' mid
  end.

Lemma run_passes_X_eq nq ps : forall ir,
  passes_round_free nq ps ir -> run_passes_X nq ps ir = run_passes_all nq ps ir.
Proof.
  induction ps as [|p ps IH]; intros ir H; cbn [run_passes_X run_passes_all passes_round_free] in *; [reflexivity|].
  destruct H as [Hp Hrest]. rewrite (run_pass_X_eq nq p ir Hp).
  destruct (run_pass_all nq p ir) as [[e|] mid]; [reflexivity|]. apply IH. now apply Hrest.
Qed.

(* sequences without the CNOT decomposer need no such hypothesis *)
Definition no_cnot (ps : list pass_all) : Prop := ~ In (PDecompose DecCNOT) ps.

Lemma no_cnot_round_free nq ps : no_cnot ps -> forall ir, passes_round_free nq ps ir.
Proof.
  induction ps as [|p ps IH]; intros Hn ir; cbn [passes_round_free]; [exact I|].
  split.
  - destruct p as [[a b| |]|target|target| |l]; cbn [round_free]; try exact I.
    exfalso. apply Hn. now left.
  - intros mid _. apply IH. intros Hin. apply Hn. now right.
Qed.

Theorem run_passes_all_uniform nq ps ir :
  no_cnot ps -> run_passes_X nq ps ir = run_passes_all nq ps ir.
Proof. intros Hn. apply run_passes_X_eq. now apply no_cnot_round_free. Qed.

(* THE THEOREM at the single instance RNumX *)
Theorem run_passes_X_same_operation nq ps ir r out :
  passes_round_free nq ps ir -> passes_all_ok nq ps ir -> run_passes_X nq ps ir = (r, out) ->
  perm_on nq (perm_of_run nq ps ir) /\ same_operation_perm (perm_of_run nq ps ir) nq ir out.
Proof.
  intros Hf Hok Hrun. rewrite (run_passes_X_eq nq ps ir Hf) in Hrun.
  exact (run_passes_all_same_operation nq ps ir r out Hok Hrun).
Qed.

Corollary run_passes_X_no_cnot_same_operation nq ps ir r out :
  no_cnot ps -> passes_all_ok nq ps ir -> run_passes_X nq ps ir = (r, out) ->
  perm_on nq (perm_of_run nq ps ir) /\ same_operation_perm (perm_of_run nq ps ir) nq ir out.
Proof. intros Hn. apply run_passes_X_same_operation. now apply no_cnot_round_free. Qed.

(* ================================================================== *)
(* 4. non-vacuity                                                      *)

(* Three qubits.  all_ir0 = X (named, on q1); measure q2 -> b0; reset q0.  The sequence
       map by the 3-cycle q0->q2, q1->q0, q2->q1;  merge;  map by the same 3-cycle;  decompose (McKay or Z-X-Z)
   The first map brings the circuit to all_ir1 (X on q0, measure q1, reset q2); merging carries the X across the
   measurement and the reset, which do not touch q0 (all_ir2: a reordering); the second map gives all_ir3; the
   decomposer then rewrites the X.  Every hypothesis of the theorem holds, the accumulated relabelling is the
   3-cycle applied twice (q0->q1, q1->q2, q2->q0), and the circuit denotes an operator for every outcome. *)
Section AllExample.
  Local Open Scope R_scope.
  Import String.

  Definition x_on (q : Z) : ginfo R := mkGinfo (Some "X"%string) (Some [AQ q]).

  Definition all_ir0 : list (stmt R) :=
    [ SGate 1%positive (BSR 1 (1, 0, 0) PI 0) (x_on 1);
      SMeasure 2%positive 2 0 (0, 0, 1) anon;
      SReset 3%positive 0 anon ].
  Definition all_ir1 : list (stmt R) :=
    [ SGate 1%positive (BSR 0 (1, 0, 0) PI 0) (x_on 0);
      SMeasure 2%positive 1 0 (0, 0, 1) anon;
      SReset 3%positive 2 anon ].
  Definition all_ir2 : list (stmt R) :=
    [ SMeasure 2%positive 1 0 (0, 0, 1) anon;
      SReset 3%positive 2 anon;
      SGate 4%positive (BSR 0 (1, 0, 0) PI (normalize_angle RNum (0 + 0))) (x_on 0) ].
  Definition all_ir3 : list (stmt R) :=
    [ SMeasure 2%positive 0 0 (0, 0, 1) anon;
      SReset 3%positive 1 anon;
      SGate 4%positive (BSR 2 (1, 0, 0) PI (normalize_angle RNum (0 + 0))) (x_on 2) ].

  Definition all_l : list Z := [2; 0; 1]%Z.

  Lemma all_remap0 : remap 3 all_l all_ir0 = Ok all_ir1.
  Proof. reflexivity. Qed.
  Lemma all_remap2 : remap 3 all_l all_ir2 = Ok all_ir3.
  Proof. reflexivity. Qed.

  Lemma all_exact_run : exact_run (acc0 RNumX 3) all_ir1.
  Proof.
    change (acc0 RNumX 3) with [ident RNumX 0; ident RNumX 1; ident RNumX 2]. unfold all_ir1. rewrite (ident_X 0).
    eapply (exact_run_rot1 _ _ _ _ _ _ _ _ (1, 0, 0) 0 0);
      [reflexivity|exact unit_axis_100|exact (regime_cW0 _ _ _ _ ex_cW1)|]. cbn [snd].
    rewrite (compose_cW0 0 _ _ _ _ _ _ _ _ unit_axis_100 unit_axis_100 ex_cW1), ex_cV1.
    rewrite exact_run_measure. cbn [flush_accs].
    match goal with |- context [acc_get [?y; ?i; ?j] 1%Z] => change (acc_get [y; i; j] 1%Z) with (Some i) end.
    cbv beta iota.
    rewrite is_identity_ident.
    change (exact_run ?a [SReset ?o ?q ?g]) with (exact_run (flush_accs a [q]) []). cbn [flush_accs].
    match goal with |- context [acc_get [?y; ?i; ?j] 2%Z] => change (acc_get [y; i; j] 2%Z) with (Some j) end.
    cbv beta iota.
    rewrite is_identity_ident.
    cbn [exact_run]. constructor; [|constructor; [|constructor; [|constructor]]].
    - intros _. rewrite <- !is_identity_bsr_X, not_identity_PI, is_identity_id0.
      unfold fname. cbn [snd x_on is_anonymous gargs]. apply mequiv_refl.
    - intros Hi. rewrite is_identity_ident in Hi. discriminate.
    - intros Hi. rewrite is_identity_ident in Hi. discriminate.
  Qed.

  Lemma all_merge : merge RNumX 3 all_ir1 = Ok all_ir2.
  Proof.
    unfold merge, all_ir1.
    change (map (fun i => ident RNumX (Z.of_nat i)) (seq 0 (Z.to_nat 3)))
      with [ident RNumX 0; ident RNumX 1; ident RNumX 2].
    rewrite (ident_X 0), merge_loop_rot.
    match goal with |- context [acc_get (?y :: ?a) 0%Z] => change (acc_get (y :: a) 0%Z) with (Some y) end.
    cbv beta iota. unfold compose_gates. cbn [fst snd Z.eqb].
    rewrite (compose_cW0 0 _ _ _ _ _ _ _ _ unit_axis_100 unit_axis_100 ex_cW1), ex_cV1.
    rewrite <- !is_identity_bsr_X, not_identity_PI, is_identity_id0.
    cbn [acc_set Z.to_nat merge_loop stmt_qubits flush].
    match goal with |- context [acc_get [?y; ?i; ?j] 1%Z] => change (acc_get [y; i; j] 1%Z) with (Some i) end.
    cbv beta iota.
    rewrite is_identity_ident.
    cbn [merge_loop stmt_qubits flush].
    match goal with |- context [acc_get [?y; ?i; ?j] 2%Z] => change (acc_get [y; i; j] 2%Z) with (Some j) end.
    cbv beta iota.
    rewrite is_identity_ident.
    cbn [merge_loop final_flush fst snd]. rewrite not_identity_PI, !is_identity_ident.
    cbn [x_on is_anonymous gargs rev app max_oid Pos.max Pos.succ Pos.compare Pos.compare_cont fst snd]. reflexivity.
  Qed.

  Lemma all_mapping_ok : mapping_ok all_l = true.
  Proof. reflexivity. Qed.

  Lemma all_nodup0 : stmts_ops_nodup all_ir0.
  Proof. repeat constructor. Qed.
  Lemma all_nodup1 : ops_nodup all_ir1.
  Proof. apply ops_nodup_iff. repeat constructor. Qed.
  Lemma all_nodup2 : stmts_ops_nodup all_ir2.
  Proof. repeat constructor. Qed.

  (* the only gate left before the decomposition is the X rotation, now on qubit 2 *)
  Lemma all_gates3 (P : gate R -> Prop) :
    (forall ph, P (BSR 2 (1, 0, 0) PI ph)) -> forall o g gi0, In (SGate o g gi0) all_ir3 -> P g.
  Proof.
    intros H o g gi0 Hin. unfold all_ir3 in Hin. cbn [In] in Hin.
    destruct Hin as [E|[E|[E|[]]]]; try discriminate E. injection E as _ <- _. apply H.
  Qed.

  Definition all_passes (d : decomposer_id) : list pass_all := [PMap all_l; PMerge; PMap all_l; PDecompose d].

  (* every hypothesis of the theorem, for the McKay decomposer and for the Z-X-Z decomposer at the end *)
  Lemma all_passes_ok d :
    SemDecP.pass_ok (SemDecP.PDecompose d) all_ir3 -> passes_all_ok 3 (all_passes d) all_ir0.
  Proof.
    intros Hd. unfold all_passes. cbn [passes_all_ok pass_all_ok run_pass_all].
    split; [split; [exact all_mapping_ok|exact all_nodup0]|].
    intros mid E. rewrite all_remap0 in E. injection E as <-.
    split; [split; [exact all_nodup1|exact all_exact_run]|].
    intros mid E. rewrite all_merge in E. injection E as <-.
    split; [split; [exact all_mapping_ok|exact all_nodup2]|].
    intros mid E. rewrite all_remap2 in E. injection E as <-.
    split; [exact Hd|]. intros; exact I.
  Qed.

  Lemma all_mckay_ok : SemDecP.pass_ok (SemDecP.PDecompose DecMcKay) all_ir3.
  Proof. cbn [SemDecP.pass_ok]. apply all_gates3. intros ph. apply mckay_exact_ok_X. Qed.

  Lemma all_aba_ok : SemDecP.pass_ok (SemDecP.PDecompose (DecABA AxZ AxX)) all_ir3.
  Proof.
    cbn [SemDecP.pass_ok]. split; [discriminate|]. apply all_gates3. intros ph. apply aba_exact_ok_X.
  Qed.

  (* the first three passes end without exception; the fourth runs on all_ir3 *)
  Lemma all_run d : run_passes_all 3 (all_passes d) all_ir0 = run_passes_all 3 [PDecompose d] all_ir3.
  Proof.
    unfold all_passes. cbn [run_passes_all run_pass_all].
    rewrite all_remap0. cbn [atomic]. rewrite all_merge. cbn [atomic]. rewrite all_remap2. reflexivity.
  Qed.

  (* the accumulated relabelling is the 3-cycle applied twice, whether or not the decomposition ends normally *)
  Lemma all_perm d q : perm_of_run 3 (all_passes d) all_ir0 q = apply_mapping all_l (apply_mapping all_l q).
  Proof.
    unfold all_passes. cbn [perm_of_run run_pass_all].
    rewrite all_remap0. cbn [atomic]. rewrite all_merge. cbn [atomic]. rewrite all_remap2. cbn [atomic pass_perm].
    destruct (decompose RNum d all_ir3) as [[e|] out]; reflexivity.
  Qed.

  Lemma all_perm_values :
    map (fun q => apply_mapping all_l (apply_mapping all_l q)) [0; 1; 2]%Z = [1; 2; 0]%Z.
  Proof. reflexivity. Qed.

  Lemma all_denotes o : exists K, kraus 3 o all_ir0 = Ok K.
  Proof.
    unfold kraus, all_ir0. cbn [kraus_from stmt_op].
    rewrite (get_matrix_bsr_lift1 3 1) by lia. rewrite !embed1_lift1 by lia. eexists. reflexivity.
  Qed.

  Example all_example d :
    In d [DecMcKay; DecABA AxZ AxX] ->
    let f := fun q => apply_mapping all_l (apply_mapping all_l q) in
    exists r out,
      run_passes_all 3 (all_passes d) all_ir0 = (r, out) /\
      passes_all_ok 3 (all_passes d) all_ir0 /\
      same_operation_perm f 3 all_ir0 out /\
      effects out = [EMeasure 0 0 (0, 0, 1); EReset 1] /\
      forall o, exists K K' z, kraus 3 o all_ir0 = Ok K /\ kraus 3 o out = Ok K' /\ unit_c z /\
        K' = mscale z (mmul RNum (perm_matrix f 3) (mmul RNum K (transpose RNum (perm_matrix f 3)))).
  Proof.
    intros Hd f.
    assert (Hok : passes_all_ok 3 (all_passes d) all_ir0).
    { apply all_passes_ok. cbn [In] in Hd. destruct Hd as [<-|[<-|[]]]; [exact all_mckay_ok|exact all_aba_ok]. }
    destruct (run_passes_all 3 (all_passes d) all_ir0) as [r out] eqn:Erun.
    exists r, out. split; [reflexivity|]. split; [exact Hok|].
    destruct (run_passes_all_same_operation 3 (all_passes d) all_ir0 r out Hok Erun) as [Hp Hs].
    assert (Hs' : same_operation_perm f 3 all_ir0 out)
      by (apply (same_operation_perm_ext _ f 3 _ _ (all_perm d) Hs)).
    assert (Hp' : perm_on 3 f).
    { assert (H1 : perm_on 3 (apply_mapping all_l))
        by (apply apply_mapping_perm_on_ge; [exact all_mapping_ok|cbn; lia]).
      exact (perm_on_compose 3 _ _ H1 H1). }
    split; [exact Hs'|]. split.
    - rewrite (proj1 Hs'). reflexivity.
    - intros o. destruct (all_denotes o) as [K HK].
      destruct (same_operation_perm_PMPt f 3 all_ir0 out o K Hp' Hs' HK) as [z [Hz HK']].
      eexists K, _, z. split; [exact HK|]. split; [exact HK'|]. split; [exact Hz|reflexivity].
  Qed.
  (* the run of the first three passes ends without exception on all_ir3: the corollary for finished runs, with
     the static composition [perm_of] *)
  Example all_example_finished :
    let ps := [PMap all_l; PMerge; PMap all_l] in
    run_passes_all 3 ps all_ir0 = (None, all_ir3) /\
    passes_all_ok 3 ps all_ir0 /\
    same_operation_perm (perm_of ps) 3 all_ir0 all_ir3 /\
    map (perm_of ps) [0; 1; 2]%Z = [1; 2; 0]%Z /\
    map (perm_idx (perm_of ps) 3) (seq 0 8) = [0; 2; 4; 6; 1; 3; 5; 7]%nat.
  Proof.
    intros ps.
    assert (Hrun : run_passes_all 3 ps all_ir0 = (None, all_ir3)).
    { unfold ps. cbn [run_passes_all run_pass_all].
      rewrite all_remap0. cbn [atomic]. rewrite all_merge. cbn [atomic]. rewrite all_remap2. reflexivity. }
    assert (Hok : passes_all_ok 3 ps all_ir0).
    { unfold ps. cbn [passes_all_ok pass_all_ok run_pass_all].
      split; [split; [exact all_mapping_ok|exact all_nodup0]|].
      intros mid E. rewrite all_remap0 in E. injection E as <-.
      split; [split; [exact all_nodup1|exact all_exact_run]|].
      intros mid E. rewrite all_merge in E. injection E as <-.
      split; [split; [exact all_mapping_ok|exact all_nodup2]|]. intros; exact I. }
    split; [exact Hrun|]. split; [exact Hok|]. split.
    - exact (proj2 (run_passes_all_same_operation_finished 3 ps all_ir0 all_ir3 Hok Hrun)).
    - split; [reflexivity|vm_compute; reflexivity].
  Qed.

  (* a second circuit, with a two-qubit gate: SemDecP's demonstration circuit (H q1; measure q1 -> b0; reset q0;
     CNOT q2 q0) mapped by the 3-cycle and then decomposed by any of the three decomposers, the CNOT decomposer
     included; the exactness predicates of SemDecP hold for H and CNOT on any qubits *)
  Import SemDecP.Demo.
  Definition demo_mapped : list (stmt R) :=
    [SGate 1 (BSR 0 h_axis PI (PI / 2)) (gi "H" [AQ 0%Z]);
     SMeasure 2 0 0 (0, 0, 1) (gi "measure" [AQ 0%Z; AB 0%Z]);
     SReset 3 2 (gi "reset" [AQ 2%Z]);
     SGate 4 (Ctrl 1 (BSR 2 (1, 0, 0) PI (PI / 2))) (gi "CNOT" [AQ 1%Z; AQ 2%Z])].

  Lemma demo_remap : remap 3 all_l demo_ir = Ok demo_mapped.
  Proof. reflexivity. Qed.

  Lemma demo_mapped_gates (P : gate R -> Prop) :
    P (BSR 0 h_axis PI (PI / 2)) -> P (Ctrl 1 (BSR 2 (1, 0, 0) PI (PI / 2))) ->
    forall o g gi0, In (SGate o g gi0) demo_mapped -> P g.
  Proof.
    intros H1 H2 o g gi0 Hin. unfold demo_mapped in Hin. cbn [In] in Hin.
    destruct Hin as [E|[E|[E|[E|[]]]]]; try discriminate E; injection E as _ <- _; assumption.
  Qed.

  Example demo_map_then_decompose d r out :
    In d [DecABA AxZ AxX; DecMcKay; DecCNOT] ->
    run_passes_all 3 [PMap all_l; PDecompose d] demo_ir = (r, out) ->
    passes_all_ok 3 [PMap all_l; PDecompose d] demo_ir /\
    same_operation_perm (apply_mapping all_l) 3 demo_ir out /\
    effects out = [EMeasure 0 0 (0, 0, 1); EReset 2] /\
    forall o, exists K, kraus 3 o demo_ir = Ok K.
  Proof.
    intros Hd Hrun.
    assert (Hok : passes_all_ok 3 [PMap all_l; PDecompose d] demo_ir).
    { cbn [passes_all_ok pass_all_ok run_pass_all].
      split; [split; [exact all_mapping_ok|repeat constructor]|].
      intros mid E. rewrite demo_remap in E. injection E as <-. split; [|intros; exact I].
      cbn [In] in Hd. destruct Hd as [<-|[<-|[<-|[]]]]; cbn [SemDecP.pass_ok].
      - split; [discriminate|]. apply demo_mapped_gates; [apply aba_exact_ok_H|exact I].
      - apply demo_mapped_gates; [apply mckay_exact_ok_H|exact I].
      - apply demo_mapped_gates; [exact I|apply cnot_exact_ok_CNOT]. }
    split; [exact Hok|].
    destruct (run_passes_all_same_operation 3 _ demo_ir r out Hok Hrun) as [_ Hs].
    assert (Hs' : same_operation_perm (apply_mapping all_l) 3 demo_ir out).
    { apply (same_operation_perm_ext _ _ 3 _ _) with (2 := Hs). intros q.
      cbn [perm_of_run run_pass_all]. rewrite demo_remap. cbn [atomic pass_perm].
      destruct (decompose RNum d demo_mapped) as [[e|] o']; reflexivity. }
    split; [exact Hs'|]. split; [rewrite (proj1 Hs'); reflexivity|exact demo_denotes].
  Qed.
End AllExample.

(* ================================================================== *)
Print Assumptions same_operation_perm_id.
Print Assumptions same_operation_perm_trans.
Print Assumptions same_operation_perm_PMPt.
Print Assumptions decompose_aba_X.
Print Assumptions decompose_mckay_X.
Print Assumptions replace_X.
Print Assumptions decompose_cnot_X.
Print Assumptions pass_all_same_operation.
Print Assumptions run_passes_all_same_operation.
Print Assumptions run_passes_all_same_operation_finished.
Print Assumptions run_passes_all_no_map_same_operation.
Print Assumptions run_passes_all_uniform.
Print Assumptions run_passes_X_same_operation.
Print Assumptions decompose_then_map.
Print Assumptions map_then_merge.
Print Assumptions all_example.
Print Assumptions all_example_finished.
Print Assumptions demo_map_then_decompose.
