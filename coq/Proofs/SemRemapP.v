(* SemRemapP.v — the qubit-remapping pass (Model/Remap.remap) preserves the operation of a circuit WITH
   measurements and resets, for every assignment of outcomes, up to the relabelling of the qubits.

   Vocabulary (Proofs/EmbedP.v): for a permutation f of the register {0..n-1} ([perm_on n f]),
   [perm_idx f n r] is the basis index r with bit q moved to bit (f q); [permutes f n M M'] says that M' is M
   with rows and columns moved by perm_idx, i.e. M' = P M P^T for the permutation matrix P = perm_matrix f n
   ([permutes_PMPt]).

     lift1_entry, lift1_spec_bits  entries of a 2x2 operator lifted to qubit q of the register, any 2x2 U
     lift1_as_mat, embed1_as_mat   embed1 n q U is the matrix of the matrix gate Mat U [q]
     embed1_relabel_ok/embed1_relabel
                                   embed1 n (f q) U is embed1 n q U with rows and columns permuted
     perm_conj_mmul, perm_conj_eye products and the identity, for an arbitrary bijection p of [0,d)
     stmt_op_relabel               one statement
     kraus_from_relabel, kraus_relabel, kraus_relabel_PMPt
                                   statement lists, every assignment of outcomes, no phase
     effects_relabel               the record of measurements/resets is relabelled, bits and axes untouched
     apply_mapping_perm_on_ge      a checked mapping is a permutation of every register at least as large
     remap_same_operation_up_to_relabelling(_gen, _PMPt)
                                   THE THEOREM for the pass
     remap_inverse_same_operation  mapping and then mapping back is the same operation
     remap_needs_mapping_ok_refuted
                                   the hypothesis [mapping_ok l] cannot be dropped: remap itself does not check it
     Examples                      a 3-qubit circuit with a gate, a measure and a reset under a 3-cycle

   Hypotheses that were added to the statement as asked, and why:
     * [mapping_ok l = true]. [remap] does not check that the list is a permutation of its keys (in the Python
       this is checked by the constructor of Mapping, modelled by [mapping_ok]/[mapper_ok], not by the pass), and
       for l = [1;1] the relabelling merges qubits; see [remap_needs_mapping_ok_refuted].
     * [stmts_ops_nodup ir]: the operand lists of the matrix gates have no repetition. This is the hypothesis of
       EmbedP.get_matrix_relabel ([mat_ops_nodup]); it holds for every gate whose qubits are pairwise distinct
       ([nodup_mat_ops_nodup]).
   The register: [remap nq l] succeeds only if length l <= nq and every used qubit is < length l. The theorem
   holds on the register of nq qubits (the circuit's) and in fact on every register of n >= length l qubits
   ([_gen]); a checked mapping fixes the qubits >= length l. *)
From Coq Require Import Reals ZArith NArith List Bool Lia Lra Arith.
Import ListNotations.
From OSQ Require Import Num IR Bits Construct Matrix Check Remap RTrig RNum SU2 BitsP MatrixP RemapP EmbedP Kraus SemBaseP.
Close Scope N_scope.
Close Scope R_scope.
Open Scope nat_scope.

Local Notation c0R := (czero RNum).
Local Notation c1R := (cone RNum).

(* ================================================================== *)
(* 1. a lifted 2x2 operator, entry by entry                            *)

Lemma lift1_entry n q (U : matR) : (0 <= q < n)%Z -> wf_mat 2 U ->
  forall r c, r < zpow2 n -> c < zpow2 n ->
    mget RNum (lift1 n q U) r c =
    cmul RNum (cmul RNum (if Nat.eqb (r / zpow2 q / 2) (c / zpow2 q / 2) then c1R else c0R)
                         (mget RNum U ((r / zpow2 q) mod 2) ((c / zpow2 q) mod 2)))
              (if Nat.eqb (r mod zpow2 q) (c mod zpow2 q) then c1R else c0R).
Proof.
  intros Hq HU r c Hr Hc. unfold lift1.
  rewrite <- (zpow2_split n q Hq) in Hr, Hc.
  pose proof (zpow2_pos q) as Hlo.
  set (hi := zpow2 (n - q - 1)) in *. set (lo := zpow2 q) in *.
  assert (HA : shape (hi * 2) (hi * 2) (kron RNum (eye RNum hi) U))
    by (apply shape_kron; [apply shape_eye|exact HU]).
  rewrite (mget_kron RNum _ _ _ _ _ _ r c HA (shape_eye RNum lo) Hr Hc).
  assert (Hr2 : r / lo < hi * 2) by (apply Nat.div_lt_upper_bound; lia).
  assert (Hc2 : c / lo < hi * 2) by (apply Nat.div_lt_upper_bound; lia).
  rewrite (mget_kron RNum _ _ _ _ _ _ _ _ (shape_eye RNum hi) HU Hr2 Hc2).
  rewrite mget_eye by (apply Nat.div_lt_upper_bound; lia).
  rewrite mget_eye by (apply Nat.mod_upper_bound; lia).
  reflexivity.
Qed.

(* identity on every other qubit, U on bit q of the row and column index *)
Lemma lift1_spec n q (U : matR) : (0 <= q < n)%Z -> wf_mat 2 U ->
  forall r c, r < zpow2 n -> c < zpow2 n ->
    mget RNum (lift1 n q U) r c =
    if agree_except (Z.to_nat q) r c
    then mget RNum U (nbit (Z.to_nat q) r) (nbit (Z.to_nat q) c)
    else c0R.
Proof.
  intros Hq HU r c Hr Hc. rewrite (lift1_entry n q U Hq HU r c Hr Hc).
  unfold zpow2, agree_except, nbit. rewrite !div_pow2_succ.
  destruct (Nat.eqb (r / 2 ^ (Z.to_nat q + 1)) (c / 2 ^ (Z.to_nat q + 1))); cbn [andb].
  - destruct (Nat.eqb (r mod 2 ^ Z.to_nat q) (c mod 2 ^ Z.to_nat q)).
    + now rewrite cmulR_1_l, cmulR_1_r.
    + now rewrite cmulR_0_r.
  - now rewrite cmulR_0_l, cmulR_0_l.
Qed.

(* the same in the vocabulary of the matrix gates *)
Lemma lift1_spec_bits n q (U : matR) : (0 <= q < n)%Z -> wf_mat 2 U ->
  forall r c, r < zpow2 n -> c < zpow2 n ->
    mget RNum (lift1 n q U) r c =
    if agreeb [Z.to_N q] (N.of_nat r) (N.of_nat c)
    then mget RNum U (N.to_nat (reduced_ket (N.of_nat r) [Z.to_N q]))
                     (N.to_nat (reduced_ket (N.of_nat c) [Z.to_N q]))
    else c0R.
Proof.
  intros Hq HU r c Hr Hc. rewrite (lift1_spec n q U Hq HU r c Hr Hc).
  rewrite <- (Z_nat_N q). now rewrite agreeb_single, !reduced_ket_single_nat.
Qed.

(* a 2x2 operator on qubit q of the register is the one-operand matrix gate of that operator *)
Lemma lift1_as_mat n q (U : matR) : (0 <= q < n)%Z -> wf_mat 2 U ->
  get_matrix RNum n (Mat U [q]) = Ok (lift1 n q U).
Proof.
  intros Hq HU.
  destruct (get_matrix_mat_spec RNum n U [q]) as [M2 [HM2 [Hwf2 Hent2]]].
  - repeat constructor. intros [].
  - intros q' [<-|[]]. exact Hq.
  - exact HU.
  - rewrite HM2. f_equal. apply (mat_ext RNum _ _ _ _ Hwf2 (lift1_wf n q U Hq HU)).
    intros r c Hr Hc. rewrite (Hent2 r c Hr Hc), (lift1_spec_bits n q U Hq HU r c Hr Hc). reflexivity.
Qed.

Corollary embed1_as_mat n q (U : matR) : (0 <= q < n)%Z -> wf_mat 2 U ->
  embed1 n q U = get_matrix RNum n (Mat U [q]).
Proof. intros Hq HU. now rewrite (embed1_lift1 n q U Hq), (lift1_as_mat n q U Hq HU). Qed.

(* existence is preserved: f keeps the register *)
Lemma embed1_relabel_ok f n q (U : matR) M :
  perm_on n f -> embed1 n q U = Ok M -> exists M', embed1 n (f q) U = Ok M'.
Proof.
  intros Hp HM. apply embed1_ok_lift1 in HM. destruct HM as [Hq _].
  eexists. apply embed1_lift1. now apply (proj1 Hp).
Qed.

(* item 1. (0 <= q < n follows from embed1 n q U = Ok M, so it is not a hypothesis) *)
Theorem embed1_relabel f n q (U M M' : matR) r c :
  perm_on n f -> wf_mat 2 U ->
  embed1 n q U = Ok M -> embed1 n (f q) U = Ok M' ->
  r < zpow2 n -> c < zpow2 n ->
  mget RNum M' (perm_idx f n r) (perm_idx f n c) = mget RNum M r c.
Proof.
  intros Hp HU HM HM' Hr Hc.
  pose proof (embed1_ok_lift1 _ _ _ _ HM) as [Hq _].
  pose proof (embed1_ok_lift1 _ _ _ _ HM') as [Hfq _].
  rewrite (embed1_as_mat n q U Hq HU) in HM. rewrite (embed1_as_mat n (f q) U Hfq HU) in HM'.
  apply (get_matrix_relabel f n (Mat U [q]) M M' r c); auto.
  cbn [mat_ops_nodup]. repeat constructor. intros [].
Qed.

Corollary embed1_permutes f n q (U M M' : matR) :
  perm_on n f -> wf_mat 2 U ->
  embed1 n q U = Ok M -> embed1 n (f q) U = Ok M' -> permutes f n M M'.
Proof. intros Hp HU HM HM' r c Hr Hc. now apply (embed1_relabel f n q U M M'). Qed.

(* ================================================================== *)
(* 2. products and the identity under an arbitrary bijection of [0,d)  *)

Definition perm_conj (d : nat) (p : nat -> nat) (A A' : matR) : Prop :=
  forall r c, r < d -> c < d -> mget RNum A' (p r) (p c) = mget RNum A r c.

Definition bij_on (d : nat) (p pinv : nat -> nat) : Prop :=
  (forall s, s < d -> p s < d) /\ (forall j, j < d -> pinv j < d) /\
  (forall s, s < d -> pinv (p s) = s) /\ (forall j, j < d -> p (pinv j) = j).

Lemma perm_conj_mmul d p pinv (A B A' B' : matR) :
  0 < d -> bij_on d p pinv ->
  wf_mat d A -> wf_mat d B -> wf_mat d A' -> wf_mat d B' ->
  perm_conj d p A A' -> perm_conj d p B B' ->
  perm_conj d p (mmul RNum A B) (mmul RNum A' B').
Proof.
  intros Hd [Hlt [Hilt [Hip Hpi]]] HA HB HA' HB' PA PB r c Hr Hc.
  rewrite (mget_mmul RNum _ _ _ A B r c Hd HA HB Hr Hc).
  rewrite (mget_mmul RNum _ _ _ A' B' _ _ Hd HA' HB' (Hlt r Hr) (Hlt c Hc)).
  rewrite (csumR_reindex d d p pinv).
  - apply csum_ext. intros s Hs. cbv beta. now rewrite (PA r s Hr Hs), (PB s c Hs Hc).
  - exact Hlt.
  - exact Hip.
  - exact Hilt.
  - intros j Hj Hne. exfalso. apply Hne. now apply Hpi.
Qed.

Lemma perm_conj_eye d p pinv : bij_on d p pinv -> perm_conj d p (eye RNum d) (eye RNum d).
Proof.
  intros [Hlt [_ [Hip _]]] r c Hr Hc. rewrite !mget_eye by auto.
  destruct (Nat.eqb_spec r c) as [->|Hne]; [now rewrite Nat.eqb_refl|].
  destruct (Nat.eqb_spec (p r) (p c)) as [E|]; [|reflexivity].
  exfalso. apply Hne. rewrite <- (Hip r Hr), <- (Hip c Hc). now rewrite E.
Qed.

(* the instance used below: EmbedP.permutes is perm_conj at perm_idx, a bijection with inverse unperm_idx *)
Lemma perm_idx_bij_on f n : perm_on n f -> bij_on (zpow2 n) (perm_idx f n) (unperm_idx f n).
Proof.
  intros Hp. repeat split.
  - intros s _. now apply perm_idx_lt.
  - intros j _. apply unperm_idx_lt.
  - intros s Hs. now apply unperm_perm.
  - intros j Hj. now apply perm_unperm.
Qed.

Lemma permutes_perm_conj f n (M M' : matR) :
  permutes f n M M' <-> perm_conj (zpow2 n) (perm_idx f n) M M'.
Proof. reflexivity. Qed.

(* ================================================================== *)
(* 3. statement lists                                                  *)

(* the operand lists of the matrix gates of the statement have no repetition *)
Definition stmt_ops_nodup (s : stmt R) : Prop :=
  match s with SGate _ g _ => mat_ops_nodup g | _ => True end.
Definition stmts_ops_nodup (ir : list (stmt R)) : Prop := Forall stmt_ops_nodup ir.

(* gates with pairwise distinct qubits (all that the constructors build) qualify *)
Lemma stmts_ops_nodup_of_nodup ir :
  Forall (fun s => NoDup (stmt_qubits s)) ir -> stmts_ops_nodup ir.
Proof.
  unfold stmts_ops_nodup. apply Forall_impl. intros [o g gi|o q b ax gi|o q gi|t]; cbn [stmt_ops_nodup stmt_qubits]; auto.
  apply nodup_mat_ops_nodup.
Qed.

Lemma nonunitary_relabel f s : nonunitary [map_stmt_qubits f s] = nonunitary [s].
Proof. now destruct s. Qed.

Lemma stmt_op_relabel f n o k s :
  perm_on n f -> stmt_ops_nodup s ->
  match fst (stmt_op n o k s) with
  | Err _ => True
  | Ok None => fst (stmt_op n o k (map_stmt_qubits f s)) = Ok None
  | Ok (Some M) => exists M', fst (stmt_op n o k (map_stmt_qubits f s)) = Ok (Some M') /\ permutes f n M M'
  end.
Proof.
  intros Hp Hnd.
  destruct s as [oid g gi|oid q b ax gi|oid q gi|t]; cbn [stmt_op map_stmt_qubits fst stmt_ops_nodup] in *.
  - destruct (get_matrix RNum n g) as [G|e] eqn:EG; [|exact I].
    destruct (get_matrix_relabel_ok RNum f n g Hp (ex_intro _ G EG)) as [G' EG'].
    rewrite EG'. exists G'. split; [reflexivity|].
    intros r c Hr Hc. now apply (get_matrix_relabel f n g G G').
  - destruct (embed1 n q (proj_axis ax (o k))) as [P|e] eqn:EP; [|exact I].
    destruct (embed1_relabel_ok f n q _ P Hp EP) as [P' EP'].
    rewrite EP'. exists P'. split; [reflexivity|].
    exact (embed1_permutes f n q _ P P' Hp (proj_axis_wf _ _) EP EP').
  - destruct (embed1 n q (reset_op (o k))) as [P|e] eqn:EP; [|exact I].
    destruct (embed1_relabel_ok f n q _ P Hp EP) as [P' EP'].
    rewrite EP'. exists P'. split; [reflexivity|].
    exact (embed1_permutes f n q _ P P' Hp (reset_op_wf _) EP EP').
  - reflexivity.
Qed.

Lemma kraus_from_relabel f n o ir : forall k (acc acc' K : matR),
  perm_on n f -> stmts_ops_nodup ir ->
  wf_mat (zpow2 n) acc -> wf_mat (zpow2 n) acc' -> permutes f n acc acc' ->
  kraus_from n o k acc ir = Ok K ->
  exists K', kraus_from n o k acc' (map (map_stmt_qubits f) ir) = Ok K' /\ permutes f n K K'.
Proof.
  induction ir as [|s ir IH]; intros k acc acc' K Hp Hnd Wa Wa' Pa HK.
  - cbn [map kraus_from] in *. injection HK as <-. exists acc'. split; [reflexivity|exact Pa].
  - inversion Hnd as [|s0 ir0 Hs Hir]; subst s0 ir0.
    cbn [map]. rewrite kraus_from_cons in HK |- *. rewrite nonunitary_relabel.
    pose proof (stmt_op_relabel f n o k s Hp Hs) as Hop.
    destruct (fst (stmt_op n o k s)) as [[M|]|e] eqn:E; [| |discriminate].
    + destruct Hop as [M' [E' PM]]. rewrite E'.
      pose proof (stmt_op_wf _ _ _ _ _ E) as WM. pose proof (stmt_op_wf _ _ _ _ _ E') as WM'.
      apply (IH _ (mmul RNum M acc) (mmul RNum M' acc') K); auto.
      * now apply wf_mmul.
      * now apply wf_mmul.
      * now apply permutes_mmul.
    + rewrite Hop. apply (IH _ acc acc' K); auto.
Qed.

(* item 3 *)
Theorem kraus_relabel f n o ir (K : matR) :
  perm_on n f -> stmts_ops_nodup ir ->
  kraus n o ir = Ok K ->
  exists K', kraus n o (map (map_stmt_qubits f) ir) = Ok K' /\
    forall r c, r < zpow2 n -> c < zpow2 n ->
      mget RNum K' (perm_idx f n r) (perm_idx f n c) = mget RNum K r c.
Proof.
  intros Hp Hnd HK. unfold kraus in *.
  apply (kraus_from_relabel f n o ir 0 _ _ K Hp Hnd (shape_eye RNum _) (shape_eye RNum _)
           (permutes_eye f n Hp) HK).
Qed.

(* the matrix form: K' = P K P^T *)
Corollary kraus_relabel_PMPt f n o ir (K : matR) :
  perm_on n f -> stmts_ops_nodup ir ->
  kraus n o ir = Ok K ->
  kraus n o (map (map_stmt_qubits f) ir) =
    Ok (mmul RNum (perm_matrix f n) (mmul RNum K (transpose RNum (perm_matrix f n)))).
Proof.
  intros Hp Hnd HK. destruct (kraus_relabel f n o ir K Hp Hnd HK) as [K' [HK' HP]].
  rewrite HK'. f_equal. apply permutes_PMPt; auto.
  - exact (kraus_wf _ _ _ _ HK).
  - exact (kraus_wf _ _ _ _ HK').
Qed.

(* ================================================================== *)
(* 4. effects                                                          *)

Definition relabel_effect (f : Z -> Z) (e : effect) : effect :=
  match e with
  | EMeasure q b ax => EMeasure (f q) b ax
  | EReset q => EReset (f q)
  end.

Theorem effects_relabel f ir :
  effects (map (map_stmt_qubits f) ir) = map (relabel_effect f) (effects ir).
Proof.
  induction ir as [|s ir IH]; [reflexivity|].
  destruct s as [oid g gi|oid q b ax gi|oid q gi|t];
    cbn [map map_stmt_qubits effects relabel_effect]; now rewrite IH.
Qed.

(* ================================================================== *)
(* 5. the pass                                                         *)

(* the pass also relabels the captured arguments (ginfo); neither the operators nor the effects look at them *)
Lemma stmt_op_remap_stmt f n o k (s : stmt R) :
  stmt_op n o k (remap_stmt f s) = stmt_op n o k (map_stmt_qubits f s).
Proof. now destruct s. Qed.

Lemma kraus_from_remap_stmt f n o ir : forall k acc,
  kraus_from n o k acc (map (remap_stmt f) ir) = kraus_from n o k acc (map (map_stmt_qubits f) ir).
Proof.
  induction ir as [|s ir IH]; intros k acc; [reflexivity|].
  cbn [map kraus_from]. rewrite stmt_op_remap_stmt.
  destruct (stmt_op n o k (map_stmt_qubits f s)) as [[[M|]|e] k']; auto.
Qed.

Lemma kraus_remap_stmt f n o ir :
  kraus n o (map (remap_stmt f) ir) = kraus n o (map (map_stmt_qubits f) ir).
Proof. apply kraus_from_remap_stmt. Qed.

Lemma effects_remap_stmt f (ir : list (stmt R)) :
  effects (map (remap_stmt f) ir) = effects (map (map_stmt_qubits f) ir).
Proof.
  induction ir as [|s ir IH]; [reflexivity|].
  destruct s as [oid g gi|oid q b ax gi|oid q gi|t];
    cbn [map remap_stmt map_stmt_qubits effects]; now rewrite IH.
Qed.

(* a checked mapping permutes its keys and fixes everything else: a permutation of every register >= length l *)
Lemma apply_mapping_perm_on_ge l n :
  mapping_ok l = true -> (Z.of_nat (length l) <= n)%Z -> perm_on n (apply_mapping l).
Proof.
  intros Hok Hn. destruct (apply_mapping_perm_on l Hok) as [Hr Hi].
  assert (Hout : forall q, (Z.of_nat (length l) <= q)%Z -> apply_mapping l q = q).
  { intros q Hq. apply apply_mapping_uncovered. apply not_true_is_false. intros Hc.
    apply covered_iff in Hc. lia. }
  split.
  - intros q Hq. destruct (Z_lt_ge_dec q (Z.of_nat (length l))) as [Hlt|Hge].
    + pose proof (Hr q ltac:(lia)). lia.
    + rewrite Hout by lia. lia.
  - intros q1 q2 H1 H2 E.
    destruct (Z_lt_ge_dec q1 (Z.of_nat (length l))) as [L1|G1];
      destruct (Z_lt_ge_dec q2 (Z.of_nat (length l))) as [L2|G2].
    + apply Hi; auto; lia.
    + pose proof (Hr q1 ltac:(lia)). rewrite (Hout q2) in E by lia. lia.
    + pose proof (Hr q2 ltac:(lia)). rewrite (Hout q1) in E by lia. lia.
    + rewrite (Hout q1), (Hout q2) in E by lia. exact E.
Qed.

(* on every register at least as large as the mapping *)
Theorem remap_same_operation_up_to_relabelling_gen nq n l (ir ir' : list (stmt R)) :
  mapping_ok l = true ->
  remap nq l ir = Ok ir' ->
  stmts_ops_nodup ir ->
  (Z.of_nat (length l) <= n)%Z ->
  let f := apply_mapping l in
  effects ir' = map (relabel_effect f) (effects ir) /\
  forall o K, kraus n o ir = Ok K ->
    exists K', kraus n o ir' = Ok K' /\
      forall r c, r < zpow2 n -> c < zpow2 n ->
        mget RNum K' (perm_idx f n r) (perm_idx f n c) = mget RNum K r c.
Proof.
  intros Hok H Hnd Hn f. rewrite (remap_relabels _ _ _ _ H). fold f. split.
  - rewrite effects_remap_stmt. apply effects_relabel.
  - intros o K HK. rewrite kraus_remap_stmt.
    apply kraus_relabel; auto. now apply apply_mapping_perm_on_ge.
Qed.

(* item 5: THE THEOREM, on the register of the circuit (nq qubits; remap requires length l <= nq) *)
Theorem remap_same_operation_up_to_relabelling nq l (ir ir' : list (stmt R)) :
  mapping_ok l = true ->
  remap nq l ir = Ok ir' ->
  stmts_ops_nodup ir ->
  let f := apply_mapping l in
  let n := nq in
  effects ir' = map (relabel_effect f) (effects ir) /\
  forall o K, kraus n o ir = Ok K ->
    exists K', kraus n o ir' = Ok K' /\
      forall r c, r < zpow2 n -> c < zpow2 n ->
        mget RNum K' (perm_idx f n r) (perm_idx f n c) = mget RNum K r c.
Proof.
  intros Hok H Hnd. apply (remap_same_operation_up_to_relabelling_gen nq nq l ir ir' Hok H Hnd).
  exact (remap_ok_fits _ _ _ _ H).
Qed.

(* matrix form: the Kraus operator of the mapped circuit is P K P^T, P the permutation matrix of the mapping *)
Corollary remap_same_operation_PMPt nq l (ir ir' : list (stmt R)) o (K : matR) :
  mapping_ok l = true ->
  remap nq l ir = Ok ir' ->
  stmts_ops_nodup ir ->
  kraus nq o ir = Ok K ->
  kraus nq o ir' =
    Ok (mmul RNum (perm_matrix (apply_mapping l) nq)
          (mmul RNum K (transpose RNum (perm_matrix (apply_mapping l) nq)))).
Proof.
  intros Hok H Hnd HK. rewrite (remap_relabels _ _ _ _ H), kraus_remap_stmt.
  apply kraus_relabel_PMPt; auto.
  apply apply_mapping_perm_on_ge; [exact Hok|exact (remap_ok_fits _ _ _ _ H)].
Qed.

(* with the mapper's own size check (Mapper(qubit_register_size, mapping)): the register is exactly the mapping *)
Corollary remap_same_operation_mapper nq l (ir ir' : list (stmt R)) :
  mapper_ok nq l = true ->
  remap nq l ir = Ok ir' ->
  stmts_ops_nodup ir ->
  let f := apply_mapping l in
  let n := Z.of_nat (length l) in
  effects ir' = map (relabel_effect f) (effects ir) /\
  forall o K, kraus n o ir = Ok K ->
    exists K', kraus n o ir' = Ok K' /\
      forall r c, r < zpow2 n -> c < zpow2 n ->
        mget RNum K' (perm_idx f n r) (perm_idx f n c) = mget RNum K r c.
Proof.
  intros Hm H Hnd. apply mapper_ok_size in Hm as [Hok Hsz].
  apply (remap_same_operation_up_to_relabelling_gen nq _ l ir ir' Hok H Hnd). lia.
Qed.

(* ================================================================== *)
(* 6. mapping and mapping back                                         *)

Corollary remap_inverse_same_operation nq l (ir ir' : list (stmt R)) :
  mapping_ok l = true ->
  remap nq l ir = Ok ir' ->
  exists ir'', remap nq (inverse_mapping l) ir' = Ok ir'' /\ same_operation nq ir ir''.
Proof.
  intros Hok H. exists ir. split; [now apply remap_inverse|apply same_operation_refl].
Qed.

(* and the operators of the round trip compose: relabelling by f and then by the inverse relabelling *)
Corollary remap_inverse_kraus nq l (ir ir' : list (stmt R)) o (K : matR) :
  mapping_ok l = true ->
  remap nq l ir = Ok ir' ->
  stmts_ops_nodup ir ->
  kraus nq o ir = Ok K ->
  exists K' ir'', kraus nq o ir' = Ok K' /\ permutes (apply_mapping l) nq K K' /\
    remap nq (inverse_mapping l) ir' = Ok ir'' /\ kraus nq o ir'' = Ok K.
Proof.
  intros Hok H Hnd HK.
  destruct (remap_same_operation_up_to_relabelling nq l ir ir' Hok H Hnd) as [_ Hk].
  destruct (Hk o K HK) as [K' [HK' HP]].
  exists K', ir. repeat split; auto. now apply remap_inverse.
Qed.

(* ================================================================== *)
(* the hypothesis [mapping_ok l] is necessary                          *)

(* [remap] accepts l = [1;1] (it only checks the length and the coverage); both qubits are sent to qubit 1 and the
   statement of the theorem fails: reset q[0] becomes reset q[1], whose operator is not the permuted one. *)
Theorem remap_needs_mapping_ok_refuted :
  exists nq l (ir ir' : list (stmt R)),
    remap nq l ir = Ok ir' /\ stmts_ops_nodup ir /\
    ~ (forall o K, kraus nq o ir = Ok K ->
         exists K', kraus nq o ir' = Ok K' /\
           forall r c, r < zpow2 nq -> c < zpow2 nq ->
             mget RNum K' (perm_idx (apply_mapping l) nq r) (perm_idx (apply_mapping l) nq c) = mget RNum K r c).
Proof.
  exists 2%Z, [1%Z; 1%Z], [SReset 1%positive 0%Z anon], [SReset 1%positive 1%Z anon].
  split; [reflexivity|]. split; [repeat constructor|].
  intros H.
  assert (Q0 : (0 <= 0 < 2)%Z) by lia. assert (Q1 : (0 <= 1 < 2)%Z) by lia.
  assert (K0 : kraus 2 (fun _ => false) [SReset 1%positive 0%Z anon] = Ok (lift1 2 0 (reset_op false))).
  { unfold kraus. cbn [kraus_from stmt_op]. rewrite (embed1_lift1 2 0 _ Q0). f_equal.
    apply (mmul_eye_r (zpow2 2) (zpow2 2)); [apply zpow2_pos|].
    exact (lift1_wf 2 0 _ Q0 (reset_op_wf false)). }
  assert (K1 : kraus 2 (fun _ => false) [SReset 1%positive 1%Z anon] = Ok (lift1 2 1 (reset_op false))).
  { unfold kraus. cbn [kraus_from stmt_op]. rewrite (embed1_lift1 2 1 _ Q1). f_equal.
    apply (mmul_eye_r (zpow2 2) (zpow2 2)); [apply zpow2_pos|].
    exact (lift1_wf 2 1 _ Q1 (reset_op_wf false)). }
  destruct (H _ _ K0) as [K' [HK' HP]]. rewrite K1 in HK'.
  assert (EK : K' = lift1 2 1 (reset_op false)) by congruence. subst K'. clear HK'.
  assert (L1 : 1 < zpow2 2) by (vm_compute; lia).
  assert (L0 : 0 < zpow2 2) by (vm_compute; lia).
  (* index 1 = |q1 q0> = |01> is sent to index 0; there the reset on q1 has entry 1, the reset on q0 had entry 0 *)
  pose proof (HP 1 1 L1 L1) as E1.
  assert (P1 : perm_idx (apply_mapping [1%Z; 1%Z]) 2 1 = 0) by (vm_compute; reflexivity).
  rewrite P1 in E1.
  rewrite (lift1_spec 2 1 _ Q1 (reset_op_wf false) 0 0 L0 L0) in E1.
  rewrite (lift1_spec 2 0 _ Q0 (reset_op_wf false) 1 1 L1 L1) in E1.
  vm_compute in E1. injection E1 as E1. lra.
Qed.

(* ================================================================== *)
(* 7. non-vacuity                                                      *)

Section Examples.
  Local Open Scope R_scope.

  (* X-like rotation on q0 (its captured argument names q0 as well), a controlled rotation q0 -> q1, a comment,
     measure q1 along Z into bit 0, reset q2; three qubits *)
  Definition ex_ir : list (stmt R) :=
    [ SGate 1%positive (BSR 0 (1, 0, 0) PI (PI / 2)) (mkGinfo None (Some [AQ 0%Z]));
      SGate 2%positive (Ctrl 0 (BSR 1 (0, 0, 1) PI 0)) anon;
      SComment String.EmptyString;
      SMeasure 3%positive 1 0 (0, 0, 1) (mkGinfo None (Some [AQ 1%Z; AB 0%Z]));
      SReset 4%positive 2 anon ].

  (* the 3-cycle q0 -> q2, q1 -> q0, q2 -> q1 *)
  Definition ex_l : list Z := [2; 0; 1]%Z.

  Definition ex_ir' : list (stmt R) :=
    [ SGate 1%positive (BSR 2 (1, 0, 0) PI (PI / 2)) (mkGinfo None (Some [AQ 2%Z]));
      SGate 2%positive (Ctrl 2 (BSR 0 (0, 0, 1) PI 0)) anon;
      SComment String.EmptyString;
      SMeasure 3%positive 0 0 (0, 0, 1) (mkGinfo None (Some [AQ 0%Z; AB 0%Z]));
      SReset 4%positive 1 anon ].

  Example ex_mapping_ok : mapping_ok ex_l = true.
  Proof. reflexivity. Qed.

  Example ex_mapper_ok : mapper_ok 3 ex_l = true.
  Proof. reflexivity. Qed.

  Example ex_not_identity : apply_mapping ex_l 0 = 2%Z /\ apply_mapping ex_l 1 = 0%Z /\ apply_mapping ex_l 2 = 1%Z.
  Proof. repeat split. Qed.

  Example ex_remap : remap 3 ex_l ex_ir = Ok ex_ir'.
  Proof. reflexivity. Qed.

  Example ex_nodup : stmts_ops_nodup ex_ir.
  Proof. repeat constructor. Qed.

  Example ex_effects :
    effects ex_ir = [EMeasure 1 0 (0, 0, 1); EReset 2] /\ effects ex_ir' = [EMeasure 0 0 (0, 0, 1); EReset 1].
  Proof. split; reflexivity. Qed.

  (* the original circuit denotes an operator for every assignment of outcomes: the premise of the Kraus part of
     the theorem is satisfiable *)
  Example ex_kraus_defined o : exists K, kraus 3 o ex_ir = Ok K.
  Proof.
    unfold kraus, ex_ir. cbn [kraus_from stmt_op].
    rewrite (get_matrix_bsr_lift1 3 0) by lia.
    destruct (proj2 (get_matrix_ok_iff RNum 3 (Ctrl 0 (BSR 1 (0, 0, 1) PI 0)))) as [G HG].
    { split; [|exact I]. cbn [gate_qubits]. intros q [<-|[<-|[]]]; lia. }
    rewrite HG. rewrite !embed1_lift1 by lia. eexists. reflexivity.
  Qed.

  (* the theorem applied: every hypothesis discharged *)
  Example ex_theorem o :
    effects ex_ir' = map (relabel_effect (apply_mapping ex_l)) (effects ex_ir) /\
    exists K K', kraus 3 o ex_ir = Ok K /\ kraus 3 o ex_ir' = Ok K' /\
      (forall r c, (r < 8)%nat -> (c < 8)%nat ->
         mget RNum K' (perm_idx (apply_mapping ex_l) 3 r) (perm_idx (apply_mapping ex_l) 3 c) = mget RNum K r c) /\
      K' = mmul RNum (perm_matrix (apply_mapping ex_l) 3)
             (mmul RNum K (transpose RNum (perm_matrix (apply_mapping ex_l) 3))).
  Proof.
    destruct (remap_same_operation_up_to_relabelling 3 ex_l ex_ir ex_ir' ex_mapping_ok ex_remap ex_nodup)
      as [He Hk].
    split; [exact He|].
    destruct (ex_kraus_defined o) as [K HK]. destruct (Hk o K HK) as [K' [HK' HP]].
    exists K, K'. repeat split; auto.
    pose proof (remap_same_operation_PMPt 3 ex_l ex_ir ex_ir' o K ex_mapping_ok ex_remap ex_nodup HK) as E.
    rewrite HK' in E. now injection E.
  Qed.

  (* the permutation of basis indices is not the identity: |q2 q1 q0> = |001> (index 1) goes to |100> (index 4) *)
  Example ex_perm_idx : map (perm_idx (apply_mapping ex_l) 3) (seq 0 8) = [0; 4; 1; 5; 2; 6; 3; 7]%nat.
  Proof. vm_compute. reflexivity. Qed.

  Example ex_round_trip :
    exists ir'', remap 3 (inverse_mapping ex_l) ex_ir' = Ok ir'' /\ same_operation 3 ex_ir ir''.
  Proof. exact (remap_inverse_same_operation 3 ex_l ex_ir ex_ir' ex_mapping_ok ex_remap). Qed.
End Examples.

Print Assumptions embed1_relabel.
Print Assumptions perm_conj_mmul.
Print Assumptions kraus_relabel.
Print Assumptions effects_relabel.
Print Assumptions remap_same_operation_up_to_relabelling.
Print Assumptions remap_same_operation_up_to_relabelling_gen.
Print Assumptions remap_same_operation_PMPt.
Print Assumptions remap_inverse_same_operation.
Print Assumptions remap_needs_mapping_ok_refuted.
Print Assumptions ex_theorem.
