(* GraphP.v — proofs about Model/Graph.v (C18). *)
From Coq Require Import ZArith List Bool Lia.
Import ListNotations.
From OSQ Require Import Num IR Graph.

Section GraphP.
  Context {T : Type}.
  Notation stmt := (stmt T).
  Notation gate := (gate T).

  Definition two_qubit_gate_on (s : stmt) (a b : Z) : Prop :=
    exists o g gi, s = SGate o g gi /\ (gate_qubits g = [a; b] \/ gate_qubits g = [b; a]).

  Definition gate_arity_ok (s : stmt) : Prop :=
    match s with
    | SGate _ g _ => length (gate_qubits g) = 1%nat \/ length (gate_qubits g) = 2%nat
    | _ => True
    end.

  Lemma graph_edges_ok_iff (ir : list stmt) :
    (exists es, graph_edges ir = Ok es) <-> Forall gate_arity_ok ir.
  Proof.
    induction ir as [|s ir IH]; cbn [graph_edges].
    - split; [constructor | intros _; eexists; reflexivity].
    - destruct s as [o g gi| | |]; try (rewrite IH; split; [intros H; constructor; [exact I|exact H] | intros H; inversion H; assumption]).
      destruct (gate_qubits g) as [|a [|b [|c l]]] eqn:E.
      + split; [intros [es H]; discriminate | intros H; inversion H as [|? ? Hs _]; subst; cbn in Hs; rewrite E in Hs; cbn in Hs; lia].
      + rewrite IH. split; [intros H; constructor; [cbn; rewrite E; cbn; auto | exact H] | intros H; inversion H; assumption].
      + split.
        * intros [es H]. destruct (graph_edges ir) as [es'|e] eqn:E'; [|discriminate].
          constructor; [cbn; rewrite E; cbn; auto | apply IH; eexists; reflexivity].
        * intros H. inversion H as [|? ? _ Hir]; subst. apply IH in Hir. destruct Hir as [es' ->]. eexists; reflexivity.
      + split; [intros [es H]; discriminate | intros H; inversion H as [|? ? Hs _]; subst; cbn in Hs; rewrite E in Hs; cbn in Hs; lia].
  Qed.

  Lemma graph_edge_iff_dir (ir : list stmt) : forall es,
    graph_edges ir = Ok es ->
    forall a b, In (a, b) es <-> exists o g gi, In (SGate o g gi) ir /\ gate_qubits g = [a; b].
  Proof.
    induction ir as [|s ir IH]; cbn [graph_edges]; intros es H a b.
    - inversion H; subst. split; [intros [] | intros (o & g & gi & [] & _)].
    - destruct s as [o g gi|o q bb ax gi|o q gi|t].
      2-4: (rewrite (IH es H a b); split; intros (o' & g' & gi' & Hin & Hq); exists o', g', gi'; (split; [|exact Hq]);
            [right; exact Hin | destruct Hin as [Hd|Hin]; [discriminate|exact Hin]]).
      destruct (gate_qubits g) as [|x [|y [|z l]]] eqn:E; try discriminate.
      + rewrite (IH es H a b). split; intros (o' & g' & gi' & Hin & Hq); exists o', g', gi'; (split; [|exact Hq]).
        * right; exact Hin.
        * destruct Hin as [Hd|Hin]; [|exact Hin]. inversion Hd; subst. rewrite E in Hq. discriminate.
      + destruct (graph_edges ir) as [es'|e] eqn:E'; [|discriminate]. inversion H; subst. cbn [In].
        rewrite (IH es' eq_refl a b). split.
        * intros [Heq|(o' & g' & gi' & Hin & Hq)].
          -- inversion Heq; subst. exists o, g, gi. split; [left; reflexivity|exact E].
          -- exists o', g', gi'. split; [right; exact Hin|exact Hq].
        * intros (o' & g' & gi' & [Hd|Hin] & Hq).
          -- inversion Hd; subst. rewrite E in Hq. inversion Hq; subst. left; reflexivity.
          -- right. exists o', g', gi'. split; assumption.
  Qed.

  (* C18, main statement: an (undirected) edge {a,b} is present exactly when some
     gate of the circuit has operand list [a;b] or [b;a] — any gate kind. *)
  Lemma graph_edge_iff (ir : list stmt) (es : list (Z * Z)) :
    graph_edges ir = Ok es ->
    forall a b, (In (a, b) es \/ In (b, a) es) <-> exists s, In s ir /\ two_qubit_gate_on s a b.
  Proof.
    intros H a b. rewrite (graph_edge_iff_dir ir es H a b), (graph_edge_iff_dir ir es H b a). split.
    - intros [(o & g & gi & Hin & Hq)|(o & g & gi & Hin & Hq)]; exists (SGate o g gi); (split; [exact Hin|]);
        exists o, g, gi; (split; [reflexivity|]); [left|right]; exact Hq.
    - intros (s & Hin & o & g & gi & -> & [Hq|Hq]); [left|right]; exists o, g, gi; split; assumption.
  Qed.

  (* a gate on three or more qubits is refused (given that every gate has an operand) *)
  Lemma graph_refuses_wide (ir : list stmt) :
    Forall (fun s => match s with SGate _ g _ => gate_qubits g <> [] | _ => True end) ir ->
    (exists o g gi, In (SGate o g gi) ir /\ (length (gate_qubits g) > 2)%nat) ->
    graph_edges ir = Err EValue.
  Proof.
    induction ir as [|s ir IH]; intros Hne (o & g & gi & Hin & Hlen); [destruct Hin|].
    inversion Hne as [|? ? Hs Hne']; subst. cbn [graph_edges].
    destruct Hin as [->|Hin].
    - destruct (gate_qubits g) as [|x [|y [|z l]]]; cbn in Hlen; try lia. reflexivity.
    - assert (IH' : graph_edges ir = Err EValue) by (apply IH; [exact Hne'|exists o, g, gi; split; assumption]).
      destruct s as [o' g' gi'| | |]; try exact IH'.
      destruct (gate_qubits g') as [|x [|y [|z l]]]; [congruence|exact IH'|rewrite IH'; reflexivity|reflexivity].
  Qed.

  (* measurements, resets, comments and single-qubit gates contribute nothing *)
  Definition contributes (s : stmt) : bool :=
    match s with SGate _ g _ => negb (Nat.eqb (length (gate_qubits g)) 1) | _ => false end.

  Lemma graph_ignores_others (ir : list stmt) :
    graph_edges (filter contributes ir) = graph_edges ir.
  Proof.
    induction ir as [|s ir IH]; [reflexivity|].
    cbn [filter]. destruct s as [o g gi| | |]; cbn [contributes]; try exact IH.
    destruct (gate_qubits g) as [|x [|y [|z l]]] eqn:E; cbn [length Nat.eqb negb].
    - cbn [graph_edges]. rewrite E. reflexivity.
    - cbn [graph_edges]. rewrite E. exact IH.
    - cbn [graph_edges]. rewrite E, IH. reflexivity.
    - cbn [graph_edges]. rewrite E. reflexivity.
  Qed.

  Lemma zmem_In x l : zmem x l = true <-> In x l.
  Proof.
    induction l as [|y l IH]; cbn; [split; [discriminate|tauto]|].
    rewrite orb_true_iff, IH, Z.eqb_eq. split; intros [H|H]; auto.
  Qed.

  Lemma zdedup_In x l : In x (zdedup l) <-> In x l.
  Proof.
    induction l as [|y l IH]; cbn; [tauto|].
    destruct (zmem y l) eqn:E.
    - rewrite IH. split; [auto|]. intros [->|H]; [apply zmem_In; exact E|exact H].
    - cbn. rewrite IH. tauto.
  Qed.

  Lemma graph_nodes_spec (es : list (Z * Z)) (n : Z) :
    In n (graph_nodes es) <-> exists e, In e es /\ (n = fst e \/ n = snd e).
  Proof.
    unfold graph_nodes. rewrite zdedup_In, in_flat_map. split.
    - intros (e & He & Hn). exists e. split; [exact He|]. cbn in Hn. destruct Hn as [<-|[<-|[]]]; auto.
    - intros (e & He & [->| ->]); exists e; (split; [exact He|]); cbn; auto.
  Qed.
End GraphP.
