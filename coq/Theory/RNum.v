(* RNum.v — the instance of [Num] at Coq's real numbers, used by every theorem
   about the numeric kernels. Not executable; never extracted. *)
From Coq Require Import Reals ZArith Lra.
From OSQ Require Import Num RTrig.
Open Scope R_scope.

Definition Rfloor (x : R) : R := IZR (Int_part x).
Definition Rltb (x y : R) : bool := if Rlt_dec x y then true else false.
Definition Rleb (x y : R) : bool := if Rle_dec x y then true else false.
Definition Reqb (x y : R) : bool := if Req_EM_T x y then true else false.
Definition Rcopysign (x y : R) : R := if Rle_dec 0 y then Rabs x else - Rabs x.
(* round to d decimals; ties (a null set) are rounded up, IEEE rounds them to even *)
Definition Rround (d : Z) (x : R) : R :=
  let p := Rpower 10 (IZR d) in Rfloor (x * p + / 2) / p.

Definition RNum : Num R := {|
  nofZ := IZR;
  nadd := Rplus; nsub := Rminus; nmul := Rmult; ndiv := Rdiv;
  nneg := Ropp; nabs := Rabs; nsqrt := sqrt;
  nsin := sin; ncos := cos; ntan := tan; nacos := acos;
  natan2 := atan2;
  npi := PI;
  nfloordiv := fun x y => Rfloor (x / y);
  nmod := fun x y => x - y * Rfloor (x / y);
  nltb := Rltb; nleb := Rleb; neqb := Reqb;
  ncopysign := Rcopysign;
  nround := Rround; nroundpy := Rround;
  nisfinite := fun _ => true;
  ndegrees := fun x => x * (180 / PI)
|}.

Lemma Rltb_true x y : Rltb x y = true <-> x < y.
Proof. unfold Rltb; destruct (Rlt_dec x y); split; intros; try discriminate; try lra; auto. Qed.
Lemma Rltb_false x y : Rltb x y = false <-> y <= x.
Proof. unfold Rltb; destruct (Rlt_dec x y); split; intros; try discriminate; try lra; auto. Qed.
Lemma Rleb_true x y : Rleb x y = true <-> x <= y.
Proof. unfold Rleb; destruct (Rle_dec x y); split; intros; try discriminate; try lra; auto. Qed.
Lemma Rleb_false x y : Rleb x y = false <-> y < x.
Proof. unfold Rleb; destruct (Rle_dec x y); split; intros; try discriminate; try lra; auto. Qed.
Lemma Reqb_true x y : Reqb x y = true <-> x = y.
Proof. unfold Reqb; destruct (Req_EM_T x y); split; intros; try discriminate; auto; contradiction. Qed.

Lemma Rfloor_spec x : Rfloor x <= x < Rfloor x + 1.
Proof. unfold Rfloor. pose proof (base_Int_part x). lra. Qed.

Lemma PI_bounds : 3 < PI <= 4.
Proof. split; [pose proof PI2_3_2; lra | pose proof PI_4; lra]. Qed.
