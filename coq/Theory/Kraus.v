(* Kraus.v — what a statement list DOES, over the real numbers.

   The implementation computes only the unitary of the gates (circuit_matrix). The properties speak of "the
   operation for every combination of measurement outcomes", so this file gives the statement lists of the model a
   semantics in which measurements and resets count: for an assignment of outcomes to the non-unitary statements
   (numbered in program order) the circuit denotes one Kraus operator, the product of

     gate                      its matrix on the register (Model/Matrix.get_matrix, the implementation's own notion)
     measure q along axis n    the projector (I + (-1)^b n.sigma)/2 on qubit q, b the outcome
     reset q                   |0><b| on qubit q, b the outcome of the implied measurement
     comment (asm, barrier..)  nothing

   later statements multiplying from the left. Two statement lists do the same thing when they have the same
   non-unitary statements in the same order (so the same outcomes are written to the same bits) and, for every
   assignment of outcomes, Kraus operators that differ by a unit complex factor (a global phase).

   Definitions only; the theorems are in Proofs/SemP.v, Proofs/SemMergeP.v, Proofs/SemRemapP.v. *)
From Coq Require Import Reals ZArith List Bool.
Import ListNotations.
From OSQ Require Import Num IR Bits Construct Matrix Check RNum SU2.
Local Open Scope R_scope.

Notation CR := (R * R)%type.
Notation matR := (list (list (R * R))).

Definition rc (x : R) : CR := (x, 0).
Definition ci (x : R) : CR := (0, x).

(* (I + s (nx X + ny Y + nz Z)) / 2 with s = +1 for outcome 0 (false), -1 for outcome 1 (true) *)
Definition proj_axis (ax : axis3 R) (b : bool) : matR :=
  let s := if b then -1 else 1 in
  let nx := ax_x ax in let ny := ax_y ax in let nz := ax_z ax in
  [[((1 + s * nz) / 2, 0);        (s * nx / 2, - (s * ny) / 2)];
   [(s * nx / 2, s * ny / 2);     ((1 - s * nz) / 2, 0)]].

(* |0><b| *)
Definition reset_op (b : bool) : matR :=
  if b then [[(0, 0); (1, 0)]; [(0, 0); (0, 0)]]
  else [[(1, 0); (0, 0)]; [(0, 0); (0, 0)]].

(* a 2x2 operator on qubit q of a register of n qubits, with the refusals of the implementation's expansion *)
Definition embed1 (n q : Z) (U : matR) : result matR :=
  if Z.geb q n then Err EIndex
  else if Z.ltb q 0 then Err EValue
  else Ok (kron RNum (kron RNum (eye RNum (zpow2 (n - q - 1))) U) (eye RNum (zpow2 q))).

(* the operator of one statement; k = number of non-unitary statements before it; returns the operator (None for
   statements that do nothing) and the next k *)
Definition stmt_op (n : Z) (o : nat -> bool) (k : nat) (s : stmt R) : result (option matR) * nat :=
  match s with
  | SGate _ g _ => (match get_matrix RNum n g with Err e => Err e | Ok G => Ok (Some G) end, k)
  | SMeasure _ q _ ax _ => (match embed1 n q (proj_axis ax (o k)) with Err e => Err e | Ok P => Ok (Some P) end, S k)
  | SReset _ q _ => (match embed1 n q (reset_op (o k)) with Err e => Err e | Ok P => Ok (Some P) end, S k)
  | SComment _ => (Ok None, k)
  end.

Fixpoint kraus_from (n : Z) (o : nat -> bool) (k : nat) (acc : matR) (ir : list (stmt R)) : result matR :=
  match ir with
  | [] => Ok acc
  | s :: rest =>
      match stmt_op n o k s with
      | (Err e, _) => Err e
      | (Ok None, k') => kraus_from n o k' acc rest
      | (Ok (Some M), k') => kraus_from n o k' (mmul RNum M acc) rest
      end
  end.

Definition kraus (n : Z) (o : nat -> bool) (ir : list (stmt R)) : result matR :=
  kraus_from n o 0 (eye RNum (zpow2 n)) ir.

(* equality up to a global phase *)
Definition unit_c (z : CR) : Prop := fst z * fst z + snd z * snd z = 1.
Definition mequiv (A B : matR) : Prop := exists z : CR, unit_c z /\ A = mscale z B.

(* the record of what is measured / reset, in order: qubit, bit (measure), axis; the unitary part is erased *)
Inductive effect := EMeasure (q b : Z) (ax : axis3 R) | EReset (q : Z).
Fixpoint effects (ir : list (stmt R)) : list effect :=
  match ir with
  | [] => []
  | SMeasure _ q b ax _ :: rest => EMeasure q b ax :: effects rest
  | SReset _ q _ :: rest => EReset q :: effects rest
  | _ :: rest => effects rest
  end.

(* ir' does what ir does on a register of n qubits: same effects, and for every assignment of outcomes for which
   ir denotes an operator, ir' denotes the same operator up to a global phase *)
Definition same_operation (n : Z) (ir ir' : list (stmt R)) : Prop :=
  effects ir' = effects ir /\
  forall o A, kraus n o ir = Ok A -> exists B, kraus n o ir' = Ok B /\ mequiv B A.

(* the unitary special case agrees with the implementation's circuit matrix *)
Definition gates_only (ir : list (stmt R)) : Prop :=
  forall s, In s ir -> match s with SGate _ _ _ | SComment _ => True | _ => False end.
