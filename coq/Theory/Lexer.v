(* Lexer.v — the float-literal grammar of cQASM 3 (libqasm 0.6.x), independent
   of the model:

     FLOAT := (DIGIT+ '.' DIGIT+ | DIGIT+ '.' | '.' DIGIT+) EXP?
     EXP   := [eE] [+-]? DIGIT+

   as a boolean recogniser on Coq strings ([is_float_literal]), its
   characterisation by the declarative grammar ([FloatLit],
   [is_float_literal_spec]), the recogniser with an optional unary minus
   ([is_signed_float_literal]) and the rational value of an accepted literal
   ([literal_value], [signed_literal_value]).  In particular "1e-05" (no
   point) is not a float literal ([no_point_not_literal]). *)
From Coq Require Import ZArith QArith Qpower List Bool String Ascii Lia.
Import ListNotations.
Open Scope string_scope.

(* ------------------------------------------------------------------ *)
(* small string facts                                                   *)

Lemma sapp_assoc (a b c : string) : (a ++ b) ++ c = a ++ (b ++ c).
Proof. induction a as [|x a IH]; cbn; [reflexivity | now rewrite IH]. Qed.

Lemma sapp_nil_r (a : string) : a ++ "" = a.
Proof. induction a as [|x a IH]; cbn; [reflexivity | now rewrite IH]. Qed.

Lemma slength_app (a b : string) : String.length (a ++ b) = (String.length a + String.length b)%nat.
Proof. induction a as [|x a IH]; cbn; [reflexivity | now rewrite IH]. Qed.

(* ------------------------------------------------------------------ *)
(* character classes                                                    *)

Definition is_digit (c : ascii) : bool :=
  let n := nat_of_ascii c in Nat.leb 48 n && Nat.leb n 57.

Definition digit_val (c : ascii) : Z := Z.of_nat (nat_of_ascii c - 48).

Fixpoint all_digits (s : string) : bool :=
  match s with EmptyString => true | String c s' => is_digit c && all_digits s' end.

Definition is_empty (s : string) : bool :=
  match s with EmptyString => true | _ => false end.

(* DIGIT+ *)
Definition digits1 (s : string) : bool := negb (is_empty s) && all_digits s.

(* the longest prefix of digits, and the rest *)
Fixpoint span_digits (s : string) : string * string :=
  match s with
  | EmptyString => ("", "")
  | String c s' =>
      if is_digit c then let '(a, b) := span_digits s' in (String c a, b)
      else ("", s)
  end.

Definition is_e (c : ascii) : bool := Ascii.eqb c "e" || Ascii.eqb c "E".
Definition is_pm (c : ascii) : bool := Ascii.eqb c "+" || Ascii.eqb c "-".

(* EXP *)
Definition is_exp (s : string) : bool :=
  match s with
  | String c r =>
      is_e c &&
      match r with
      | String sg r' => if is_pm sg then digits1 r' else digits1 r
      | EmptyString => false
      end
  | EmptyString => false
  end.

(* EXP? *)
Definition is_opt_exp (s : string) : bool :=
  match s with EmptyString => true | _ => is_exp s end.

(* FLOAT *)
Definition is_float_literal (s : string) : bool :=
  let '(ip, r1) := span_digits s in
  match r1 with
  | String c r2 =>
      Ascii.eqb c "." &&
      (let '(fp, r3) := span_digits r2 in
       negb (is_empty ip && is_empty fp) && is_opt_exp r3)
  | EmptyString => false
  end.

(* '-'? FLOAT : the unary minus is an operator of the expression grammar *)
Definition is_signed_float_literal (s : string) : bool :=
  match s with
  | String c s' => if Ascii.eqb c "-" then is_float_literal s' else is_float_literal s
  | EmptyString => false
  end.

(* ------------------------------------------------------------------ *)
(* the declarative grammar                                              *)

Inductive ExpPart : string -> Prop :=
| ExpPart_intro (c : ascii) (sg ds : string) :
    (c = "e"%char \/ c = "E"%char) ->
    (sg = "" \/ sg = "+" \/ sg = "-") ->
    digits1 ds = true ->
    ExpPart (String c (sg ++ ds)).

Inductive FloatLit : string -> Prop :=
| FloatLit_intro (ip fp ex : string) :
    all_digits ip = true -> all_digits fp = true ->
    (ip <> "" \/ fp <> "") ->
    (ex = "" \/ ExpPart ex) ->
    FloatLit (ip ++ "." ++ fp ++ ex).

Definition starts_with_digit (s : string) : bool :=
  match s with String c _ => is_digit c | EmptyString => false end.

Lemma span_digits_app (a b : string) :
  all_digits a = true -> starts_with_digit b = false ->
  span_digits (a ++ b) = (a, b).
Proof.
  intros Ha Hb. induction a as [|c a IH]; cbn [append span_digits].
  - destruct b as [|c b]; [reflexivity|]. cbn in Hb. cbn [span_digits]. now rewrite Hb.
  - cbn [all_digits] in Ha. apply andb_true_iff in Ha. destruct Ha as [Hc Ha].
    rewrite Hc, (IH Ha). reflexivity.
Qed.

Lemma span_digits_spec (s a b : string) :
  span_digits s = (a, b) ->
  s = a ++ b /\ all_digits a = true /\ starts_with_digit b = false.
Proof.
  revert a b. induction s as [|c s IH]; intros a b H; cbn [span_digits] in H.
  - inversion H; subst. auto.
  - destruct (is_digit c) eqn:Hc.
    + destruct (span_digits s) as [a' b'] eqn:E. inversion H; subst.
      destruct (IH _ _ eq_refl) as (-> & Ha & Hb). cbn. rewrite Hc, Ha. auto.
    + inversion H; subst. cbn. rewrite Hc. auto.
Qed.

Lemma is_empty_eq (s : string) : is_empty s = true <-> s = "".
Proof. destruct s; cbn; split; congruence. Qed.

Lemma is_e_spec (c : ascii) : is_e c = true <-> (c = "e"%char \/ c = "E"%char).
Proof.
  unfold is_e. rewrite orb_true_iff, !Ascii.eqb_eq. tauto.
Qed.

Lemma is_pm_spec (c : ascii) : is_pm c = true <-> (c = "+"%char \/ c = "-"%char).
Proof.
  unfold is_pm. rewrite orb_true_iff, !Ascii.eqb_eq. tauto.
Qed.

Lemma digits1_not_pm (c : ascii) (s : string) : digits1 (String c s) = true -> is_pm c = false.
Proof.
  unfold digits1. cbn. intros H. apply andb_true_iff in H. destruct H as [H _].
  destruct (is_pm c) eqn:E; [|reflexivity]. apply is_pm_spec in E.
  destruct E as [-> | ->]; cbn in H; discriminate.
Qed.

Lemma is_exp_spec (s : string) : is_exp s = true <-> ExpPart s.
Proof.
  split.
  - destruct s as [|c r]; cbn [is_exp]; [discriminate|]. intros H.
    apply andb_true_iff in H. destruct H as [Hc H]. apply is_e_spec in Hc.
    destruct r as [|sg r']; [discriminate|].
    destruct (is_pm sg) eqn:Hs.
    + apply is_pm_spec in Hs.
      change (String c (String sg r')) with (String c (String sg "" ++ r')).
      constructor; [assumption| |assumption]. destruct Hs as [-> | ->]; auto.
    + change (String c (String sg r')) with (String c ("" ++ String sg r')).
      constructor; auto.
  - intros H. destruct H as [c sg ds Hc Hs Hd]. cbn [is_exp].
    apply is_e_spec in Hc. rewrite Hc. cbn [andb].
    destruct Hs as [-> | [-> | ->]]; cbn [append].
    + destruct ds as [|d ds]; [discriminate|]. now rewrite (digits1_not_pm _ _ Hd).
    + cbn. exact Hd.
    + cbn. exact Hd.
Qed.

Lemma exp_no_digit_start (s : string) : is_opt_exp s = true -> starts_with_digit s = false.
Proof.
  destruct s as [|c r]; cbn; [reflexivity|]. intros H.
  apply andb_true_iff in H. destruct H as [Hc _]. apply is_e_spec in Hc.
  destruct Hc as [-> | ->]; reflexivity.
Qed.

Lemma is_opt_exp_spec (s : string) : is_opt_exp s = true <-> (s = "" \/ ExpPart s).
Proof.
  destruct s as [|c r].
  - cbn. split; auto.
  - cbn [is_opt_exp]. rewrite is_exp_spec. split; [auto|]. intros [H|H]; [discriminate|assumption].
Qed.

(* the recogniser accepts exactly the grammar *)
Theorem is_float_literal_spec (s : string) : is_float_literal s = true <-> FloatLit s.
Proof.
  split.
  - unfold is_float_literal. destruct (span_digits s) as [ip r1] eqn:E1.
    apply span_digits_spec in E1. destruct E1 as (-> & Hip & _).
    destruct r1 as [|c r2]; [discriminate|]. intros H.
    apply andb_true_iff in H. destruct H as [Hc H]. apply Ascii.eqb_eq in Hc. subst c.
    destruct (span_digits r2) as [fp r3] eqn:E2.
    apply span_digits_spec in E2. destruct E2 as (-> & Hfp & _).
    apply andb_true_iff in H. destruct H as [Hne Hex].
    change (ip ++ String "." (fp ++ r3)) with (ip ++ "." ++ fp ++ r3).
    constructor; auto.
    + destruct ip; [|left; discriminate]. destruct fp; [discriminate | right; discriminate].
    + now apply is_opt_exp_spec.
  - intros H. destruct H as [ip fp ex Hip Hfp Hne Hex].
    apply is_opt_exp_spec in Hex.
    unfold is_float_literal. rewrite (span_digits_app ip ("." ++ fp ++ ex) Hip eq_refl).
    cbn [append]. rewrite Ascii.eqb_refl. cbn [andb].
    rewrite (span_digits_app fp ex Hfp (exp_no_digit_start _ Hex)).
    rewrite Hex, andb_true_r.
    destruct ip; [|reflexivity]. destruct fp; [|reflexivity]. destruct Hne; congruence.
Qed.

Lemma float_literal_not_minus (s : string) : is_float_literal (String "-" s) = false.
Proof. reflexivity. Qed.

Lemma float_is_signed_float (s : string) :
  is_float_literal s = true -> is_signed_float_literal s = true.
Proof.
  destruct s as [|c s]; [discriminate|]. unfold is_signed_float_literal.
  destruct (Ascii.eqb c "-") eqn:E; [|auto]. apply Ascii.eqb_eq in E. subst c.
  rewrite float_literal_not_minus. discriminate.
Qed.

Lemma neg_float_is_signed_float (s : string) :
  is_float_literal s = true -> is_signed_float_literal ("-" ++ s) = true.
Proof. intros H. cbn. exact H. Qed.

Theorem is_signed_float_literal_spec (s : string) :
  is_signed_float_literal s = true <-> (FloatLit s \/ exists s', s = "-" ++ s' /\ FloatLit s').
Proof.
  split.
  - destruct s as [|c s]; [discriminate|]. unfold is_signed_float_literal.
    destruct (Ascii.eqb c "-") eqn:E.
    + apply Ascii.eqb_eq in E. subst c. intros H. right. exists s. split; [reflexivity|].
      now apply is_float_literal_spec.
    + intros H. left. now apply is_float_literal_spec.
  - intros [H | (s' & -> & H)].
    + apply float_is_signed_float. now apply is_float_literal_spec.
    + apply neg_float_is_signed_float. now apply is_float_literal_spec.
Qed.

(* "1e-05": an exponent but no point *)
Example no_point_not_literal : is_signed_float_literal "1e-05" = false.
Proof. reflexivity. Qed.
Example with_point_literal : is_signed_float_literal "1.0e-05" = true.
Proof. reflexivity. Qed.

(* a string of digits and at most an exponent, without a point, is never a literal *)
Lemma no_point_never_literal (ds r : string) :
  all_digits ds = true -> starts_with_digit r = false ->
  (forall r', r <> String "." r') ->
  is_float_literal (ds ++ r) = false.
Proof.
  intros Hd Hr Hp. unfold is_float_literal. rewrite (span_digits_app _ _ Hd Hr).
  destruct r as [|c r']; [reflexivity|].
  destruct (Ascii.eqb c ".") eqn:E; [|reflexivity].
  apply Ascii.eqb_eq in E. subst c. exfalso. now apply (Hp r').
Qed.

(* ------------------------------------------------------------------ *)
(* values                                                               *)

(* Horner *)
Fixpoint digits_val (acc : Z) (s : string) : Z :=
  match s with
  | EmptyString => acc
  | String c s' => digits_val (10 * acc + digit_val c) s'
  end.

(* the value of EXP? *)
Definition exp_val (s : string) : Z :=
  match s with
  | String _ (String sg r') =>
      if Ascii.eqb sg "-" then (- digits_val 0 r')%Z
      else if Ascii.eqb sg "+" then digits_val 0 r'
      else digits_val 0 (String sg r')
  | _ => 0%Z
  end.

Definition pow10 (z : Z) : Q := Qpower (inject_Z 10) z.

(* ip '.' fp ex  denotes  (ip fp) * 10^(ex - |fp|) *)
Definition literal_value (s : string) : option Q :=
  if is_float_literal s then
    let '(ip, r1) := span_digits s in
    match r1 with
    | String _ r2 =>
        let '(fp, r3) := span_digits r2 in
        Some (inject_Z (digits_val 0 (ip ++ fp)) * pow10 (exp_val r3 - Z.of_nat (String.length fp)))
    | EmptyString => None
    end
  else None.

Definition signed_literal_value (s : string) : option Q :=
  match s with
  | String c s' => if Ascii.eqb c "-" then option_map Qopp (literal_value s') else literal_value s
  | EmptyString => None
  end.

Lemma literal_value_some_iff (s : string) :
  (exists q, literal_value s = Some q) <-> is_float_literal s = true.
Proof.
  unfold literal_value. split.
  - intros [q H]. destruct (is_float_literal s); [reflexivity | discriminate].
  - intros H. rewrite H. unfold is_float_literal in H.
    destruct (span_digits s) as [ip r1]. destruct r1 as [|c r2]; [discriminate|].
    destruct (span_digits r2) as [fp r3]. eexists; reflexivity.
Qed.

Lemma signed_literal_value_some_iff (s : string) :
  (exists q, signed_literal_value s = Some q) <-> is_signed_float_literal s = true.
Proof.
  destruct s as [|c s]; [cbn; split; [intros [q H]; discriminate | discriminate]|].
  unfold signed_literal_value, is_signed_float_literal.
  destruct (Ascii.eqb c "-").
  - rewrite <- literal_value_some_iff. split; intros [q H].
    + destruct (literal_value s); [eexists; reflexivity | discriminate].
    + rewrite H. eexists; reflexivity.
  - apply literal_value_some_iff.
Qed.

(* the value of a literal presented by its parts *)
Lemma literal_value_parts (ip fp ex : string) :
  all_digits ip = true -> all_digits fp = true ->
  (ip <> "" \/ fp <> "") -> is_opt_exp ex = true ->
  literal_value (ip ++ "." ++ fp ++ ex) =
  Some (inject_Z (digits_val 0 (ip ++ fp)) * pow10 (exp_val ex - Z.of_nat (String.length fp))).
Proof.
  intros Hip Hfp Hne Hex. unfold literal_value.
  assert (HL : is_float_literal (ip ++ "." ++ fp ++ ex) = true).
  { apply is_float_literal_spec. constructor; auto. now apply is_opt_exp_spec. }
  rewrite HL. rewrite (span_digits_app ip ("." ++ fp ++ ex) Hip eq_refl).
  cbn [append]. rewrite (span_digits_app fp ex Hfp (exp_no_digit_start _ Hex)). reflexivity.
Qed.

Lemma signed_literal_value_pos (s : string) :
  is_float_literal s = true -> signed_literal_value s = literal_value s.
Proof.
  destruct s as [|c s]; [discriminate|]. unfold signed_literal_value.
  destruct (Ascii.eqb c "-") eqn:E; [|reflexivity]. apply Ascii.eqb_eq in E. subst c.
  rewrite float_literal_not_minus. discriminate.
Qed.

Lemma signed_literal_value_neg (s : string) :
  signed_literal_value ("-" ++ s) = option_map Qopp (literal_value s).
Proof. reflexivity. Qed.

(* Horner facts *)
Lemma digits_val_app (acc : Z) (a b : string) :
  digits_val acc (a ++ b) = digits_val (digits_val acc a) b.
Proof. revert acc. induction a as [|c a IH]; intros acc; cbn; [reflexivity | apply IH]. Qed.

Lemma digits_val_acc (acc : Z) (s : string) :
  digits_val acc s = (acc * 10 ^ Z.of_nat (String.length s) + digits_val 0 s)%Z.
Proof.
  revert acc. induction s as [|c s IH]; intros acc.
  - cbn. lia.
  - cbn [digits_val String.length]. rewrite (IH (10 * acc + digit_val c)%Z), (IH (10 * 0 + digit_val c)%Z).
    rewrite Nat2Z.inj_succ, Z.pow_succ_r by lia. ring.
Qed.

(* powers of ten *)
Lemma pow10_nonzero (z : Z) : ~ pow10 z == 0.
Proof. unfold pow10. apply Qpower_not_0. discriminate. Qed.

Lemma pow10_add (a b : Z) : pow10 (a + b) == pow10 a * pow10 b.
Proof. unfold pow10. apply Qpower_plus. discriminate. Qed.

Lemma pow10_of_nat (n : nat) : pow10 (Z.of_nat n) == inject_Z (10 ^ Z.of_nat n).
Proof. unfold pow10. symmetry. apply Zpower_Qpower. lia. Qed.

(* (D * 10^k) * 10^(x-k) = D * 10^x *)
Lemma pow10_scale (D : Z) (k : nat) (x : Z) :
  inject_Z (D * 10 ^ Z.of_nat k) * pow10 (x - Z.of_nat k) == inject_Z D * pow10 x.
Proof.
  replace x with ((x - Z.of_nat k) + Z.of_nat k)%Z at 2 by lia.
  rewrite pow10_add, pow10_of_nat, inject_Z_mult. ring.
Qed.

Print Assumptions is_float_literal_spec.
Print Assumptions is_signed_float_literal_spec.
Print Assumptions literal_value_parts.
