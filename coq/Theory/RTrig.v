(* RTrig.v — atan2 over the reals and its cos/sin characterisation. *)
From Coq Require Import Reals Lra Lia.
Open Scope R_scope.

Definition atan2 (y x : R) : R :=
  if Rlt_dec 0 x then atan (y / x)
  else if Rlt_dec x 0 then (if Rle_dec 0 y then atan (y / x) + PI else atan (y / x) - PI)
  else if Rlt_dec 0 y then PI / 2 else if Rlt_dec y 0 then - (PI / 2) else 0.

Lemma sqrt_sq_sum_pos x y : x <> 0 \/ y <> 0 -> 0 < sqrt (x * x + y * y).
Proof.
  intros H. apply sqrt_lt_R0.
  destruct H as [H|H].
  - assert (0 < x * x) by (destruct (Rtotal_order x 0) as [?|[?|?]]; [nra|lra|nra]). nra.
  - assert (0 < y * y) by (destruct (Rtotal_order y 0) as [?|[?|?]]; [nra|lra|nra]). nra.
Qed.

Lemma cos_atan_div y x : 0 < x -> cos (atan (y / x)) = x / sqrt (x * x + y * y).
Proof.
  intros Hx. rewrite cos_atan.
  assert (Hs : 1 + (y / x)² = (x * x + y * y) / (x * x)) by (unfold Rsqr; field; lra).
  rewrite Hs. rewrite sqrt_div_alt by nra.
  rewrite (sqrt_square x) by lra.
  assert (0 < sqrt (x * x + y * y)) by (apply sqrt_sq_sum_pos; left; lra).
  field. split; lra.
Qed.

Lemma sin_atan_div y x : 0 < x -> sin (atan (y / x)) = y / sqrt (x * x + y * y).
Proof.
  intros Hx. rewrite sin_atan.
  assert (Hs : 1 + (y / x)² = (x * x + y * y) / (x * x)) by (unfold Rsqr; field; lra).
  rewrite Hs. rewrite sqrt_div_alt by nra.
  rewrite (sqrt_square x) by lra.
  assert (0 < sqrt (x * x + y * y)) by (apply sqrt_sq_sum_pos; left; lra).
  field. split; lra.
Qed.

Lemma cos_atan_div_neg y x : x < 0 -> cos (atan (y / x)) = - x / sqrt (x * x + y * y).
Proof.
  intros Hx. replace (y / x) with ((- y) / (- x)) by (field; lra).
  rewrite cos_atan_div by lra. replace (- x * - x + - y * - y) with (x * x + y * y) by ring. reflexivity.
Qed.
Lemma sin_atan_div_neg y x : x < 0 -> sin (atan (y / x)) = - y / sqrt (x * x + y * y).
Proof.
  intros Hx. replace (y / x) with ((- y) / (- x)) by (field; lra).
  rewrite sin_atan_div by lra. replace (- x * - x + - y * - y) with (x * x + y * y) by ring. reflexivity.
Qed.

Theorem cos_atan2 y x : x <> 0 \/ y <> 0 -> cos (atan2 y x) = x / sqrt (x * x + y * y).
Proof.
  intros H. unfold atan2.
  destruct (Rlt_dec 0 x) as [Hx|Hx]; [now apply cos_atan_div|].
  destruct (Rlt_dec x 0) as [Hx'|Hx'].
  - destruct (Rle_dec 0 y).
    + rewrite cos_plus, cos_PI, sin_PI, cos_atan_div_neg by lra.
      assert (0 < sqrt (x * x + y * y)) by (apply sqrt_sq_sum_pos; left; lra). field. lra.
    + rewrite cos_minus, cos_PI, sin_PI, cos_atan_div_neg by lra.
      assert (0 < sqrt (x * x + y * y)) by (apply sqrt_sq_sum_pos; left; lra). field. lra.
  - assert (x = 0) by lra. subst x.
    assert (Hy : y <> 0) by (destruct H; lra).
    replace (0 * 0 + y * y) with (y * y) by ring.
    destruct (Rlt_dec 0 y); [rewrite cos_PI2; field; apply Rgt_not_eq, sqrt_lt_R0; nra|].
    destruct (Rlt_dec y 0); [rewrite cos_neg, cos_PI2; field; apply Rgt_not_eq, sqrt_lt_R0; nra|lra].
Qed.

Theorem sin_atan2 y x : x <> 0 \/ y <> 0 -> sin (atan2 y x) = y / sqrt (x * x + y * y).
Proof.
  intros H. unfold atan2.
  destruct (Rlt_dec 0 x) as [Hx|Hx]; [now apply sin_atan_div|].
  destruct (Rlt_dec x 0) as [Hx'|Hx'].
  - destruct (Rle_dec 0 y).
    + rewrite sin_plus, cos_PI, sin_PI, sin_atan_div_neg by lra.
      assert (0 < sqrt (x * x + y * y)) by (apply sqrt_sq_sum_pos; left; lra). field. lra.
    + rewrite sin_minus, cos_PI, sin_PI, sin_atan_div_neg by lra.
      assert (0 < sqrt (x * x + y * y)) by (apply sqrt_sq_sum_pos; left; lra). field. lra.
  - assert (x = 0) by lra. subst x.
    assert (Hy : y <> 0) by (destruct H; lra).
    replace (0 * 0 + y * y) with (y * y) by ring.
    destruct (Rlt_dec 0 y).
    + rewrite sin_PI2, sqrt_square by lra. field; lra.
    + destruct (Rlt_dec y 0); [|lra].
      rewrite sin_neg, sin_PI2. replace (y * y) with ((-y) * (-y)) by ring. rewrite sqrt_square by lra. field; lra.
Qed.
