(* SU2.v — unit quaternions as SU(2): Bloch sphere rotations
     R_n(alpha) = cos(alpha/2) I - i sin(alpha/2) (nx X + ny Y + nz Z)
   are identified with the quaternion (cos(alpha/2), sin(alpha/2) n).
   [qmat] maps a quaternion to the 2x2 complex matrix in the representation of
   [can1] (Model/Matrix.v); [qmat_mul] shows that the list-based matrix product
   of the model is the quaternion product; [aba_product] computes the product
   R_A(t3) R_B(t2) R_A(t1) for two different coordinate axes A, B. *)
From Coq Require Import Reals ZArith List Bool Lra.
Import ListNotations.
From OSQ Require Import Num IR Construct Matrix ABA RTrig RNum.
Open Scope R_scope.

Definition quat : Type := (R * R * R * R)%type.

Definition qw (q : quat) : R := fst (fst (fst q)).
Definition qx (q : quat) : R := snd (fst (fst q)).
Definition qy (q : quat) : R := snd (fst q).
Definition qz (q : quat) : R := snd q.

Definition qone : quat := (1, 0, 0, 0).
Definition qneg (q : quat) : quat := (- qw q, - qx q, - qy q, - qz q).

(* (w1,v1)(w2,v2) = (w1 w2 - v1.v2, w1 v2 + w2 v1 + v1 x v2) *)
Definition qmul (p q : quat) : quat :=
  (qw p * qw q - qx p * qx q - qy p * qy q - qz p * qz q,
   qw p * qx q + qw q * qx p + (qy p * qz q - qz p * qy q),
   qw p * qy q + qw q * qy p + (qz p * qx q - qx p * qz q),
   qw p * qz q + qw q * qz p + (qx p * qy q - qy p * qx q)).

Definition qnorm2 (q : quat) : R := qw q * qw q + qx q * qx q + qy q * qy q + qz q * qz q.

Definition qrot (n : axis3 R) (angle : R) : quat :=
  (cos (angle / 2), sin (angle / 2) * ax_x n, sin (angle / 2) * ax_y n, sin (angle / 2) * ax_z n).

Definition e_axis (i : axis_id) : axis3 R :=
  match i with AxX => (1, 0, 0) | AxY => (0, 1, 0) | AxZ => (0, 0, 1) end.

Definition qrx (t : R) : quat := qrot (e_axis AxX) t.
Definition qry (t : R) : quat := qrot (e_axis AxY) t.
Definition qrz (t : R) : quat := qrot (e_axis AxZ) t.

Definition unit_axis (n : axis3 R) : Prop :=
  ax_x n * ax_x n + ax_y n * ax_y n + ax_z n * ax_z n = 1.

Lemma quat_eq (p q : quat) :
  qw p = qw q -> qx p = qx q -> qy p = qy q -> qz p = qz q -> p = q.
Proof.
  destruct p as [[[w1 x1] y1] z1], q as [[[w2 x2] y2] z2].
  unfold qw, qx, qy, qz; cbn [fst snd]. intros; subst; reflexivity.
Qed.

Ltac qcrush :=
  apply quat_eq; unfold qmul, qneg, qone, qw, qx, qy, qz; cbn [fst snd]; try ring.

Lemma qmul_assoc p q r : qmul p (qmul q r) = qmul (qmul p q) r.
Proof. qcrush. Qed.

Lemma qmul_1_l q : qmul qone q = q.
Proof. qcrush. Qed.
Lemma qmul_1_r q : qmul q qone = q.
Proof. qcrush. Qed.

Lemma qmul_neg_l p q : qmul (qneg p) q = qneg (qmul p q).
Proof. qcrush. Qed.
Lemma qmul_neg_r p q : qmul p (qneg q) = qneg (qmul p q).
Proof. qcrush. Qed.
Lemma qneg_involutive q : qneg (qneg q) = q.
Proof. qcrush. Qed.

Lemma qnorm2_mul p q : qnorm2 (qmul p q) = qnorm2 p * qnorm2 q.
Proof. unfold qnorm2, qmul, qw, qx, qy, qz; cbn [fst snd]. ring. Qed.

Lemma qnorm2_neg q : qnorm2 (qneg q) = qnorm2 q.
Proof. unfold qnorm2, qneg, qw, qx, qy, qz; cbn [fst snd]. ring. Qed.

Lemma qrot_unit n angle : unit_axis n -> qnorm2 (qrot n angle) = 1.
Proof.
  unfold unit_axis, qnorm2, qrot, qw, qx, qy, qz; cbn [fst snd]. intros Hn.
  pose proof (sin2_cos2 (angle / 2)) as H. unfold Rsqr in H.
  replace (cos (angle / 2) * cos (angle / 2) +
           sin (angle / 2) * ax_x n * (sin (angle / 2) * ax_x n) +
           sin (angle / 2) * ax_y n * (sin (angle / 2) * ax_y n) +
           sin (angle / 2) * ax_z n * (sin (angle / 2) * ax_z n))
    with (cos (angle / 2) * cos (angle / 2) +
          sin (angle / 2) * sin (angle / 2) * (ax_x n * ax_x n + ax_y n * ax_y n + ax_z n * ax_z n)) by ring.
  rewrite Hn. lra.
Qed.

Lemma e_axis_unit i : unit_axis (e_axis i).
Proof. destruct i; unfold unit_axis, e_axis, ax_x, ax_y, ax_z; cbn [fst snd]; ring. Qed.

Lemma qrot_0 n : qrot n 0 = qone.
Proof.
  unfold qrot, qone. replace (0 / 2) with 0 by field. rewrite cos_0, sin_0.
  apply quat_eq; unfold qw, qx, qy, qz; cbn [fst snd]; ring.
Qed.

(* a full turn is -1: angles that differ by 2 PI give opposite quaternions *)
Lemma qrot_2PI n angle : qrot n (angle + 2 * PI) = qneg (qrot n angle).
Proof.
  unfold qrot, qneg. replace ((angle + 2 * PI) / 2) with (angle / 2 + PI) by field.
  rewrite neg_cos, neg_sin.
  apply quat_eq; unfold qw, qx, qy, qz; cbn [fst snd]; ring.
Qed.

Lemma qrot_m2PI n angle : qrot n (angle - 2 * PI) = qneg (qrot n angle).
Proof.
  replace angle with ((angle - 2 * PI) + 2 * PI) at 2 by ring.
  rewrite qrot_2PI, qneg_involutive. reflexivity.
Qed.

(* same axis: angles add *)
Lemma qrot_add n s t : unit_axis n -> qmul (qrot n s) (qrot n t) = qrot n (s + t).
Proof.
  unfold unit_axis. intros Hn. unfold qrot.
  replace ((s + t) / 2) with (s / 2 + t / 2) by field.
  rewrite cos_plus, sin_plus.
  apply quat_eq; unfold qmul, qw, qx, qy, qz; cbn [fst snd]; try ring.
  replace (cos (s / 2) * cos (t / 2) - sin (s / 2) * ax_x n * (sin (t / 2) * ax_x n) -
           sin (s / 2) * ax_y n * (sin (t / 2) * ax_y n) - sin (s / 2) * ax_z n * (sin (t / 2) * ax_z n))
    with (cos (s / 2) * cos (t / 2) -
          sin (s / 2) * sin (t / 2) * (ax_x n * ax_x n + ax_y n * ax_y n + ax_z n * ax_z n)) by ring.
  rewrite Hn. ring.
Qed.

(* ------------------------------------------------------------------ *)
(* matrices *)

Definition qmat (q : quat) : list (list (R * R)) :=
  [[(qw q, - qz q); (- qy q, - qx q)];
   [(qy q, - qx q); (qw q, qz q)]].

Lemma pair_eq (x1 y1 x2 y2 : R) : x1 = x2 -> y1 = y2 -> (x1, y1) = (x2, y2).
Proof. intros; subst; reflexivity. Qed.

Ltac rnum_cbn :=
  cbn [nofZ nadd nsub nmul ndiv nneg nabs nsqrt nsin ncos ntan nacos natan2 npi
       nltb nleb neqb ncopysign RNum fst snd].

Ltac mat_eq :=
  repeat match goal with
         | |- cons _ _ = cons _ _ => apply f_equal2
         | |- (_, _) = (_, _) => apply pair_eq
         | |- nil = nil => reflexivity
         end; try ring.

Lemma can1_phase ax angle phase :
  can1 RNum ax angle phase = map (map (cmul RNum (cis RNum phase))) (qmat (qrot ax angle)).
Proof.
  unfold can1, qmat, qrot, nhalf, n2, qw, qx, qy, qz. cbn [map fst snd]. rnum_cbn.
  unfold cmul, cis; rnum_cbn. mat_eq.
Qed.

Lemma can1_is_qmat ax angle : can1 RNum ax angle 0 = qmat (qrot ax angle).
Proof.
  unfold can1, qmat, qrot, nhalf, n2, cmul, cis, qw, qx, qy, qz. rnum_cbn.
  rewrite cos_0, sin_0.
  mat_eq.
Qed.

Lemma qmat_mul p q : mmul RNum (qmat p) (qmat q) = qmat (qmul p q).
Proof.
  unfold mmul, transpose, qmat.
  cbn [hd length transpose_aux map tl].
  unfold vdot. cbn [combine fold_left fst snd].
  unfold cadd, cmul, czero, c0, n0, qmul, qw, qx, qy, qz. rnum_cbn.
  mat_eq.
Qed.

Lemma qmat_inj p q : qmat p = qmat q -> p = q.
Proof.
  unfold qmat. intros H.
  injection H as H1 H2 H3 H4 H5 H6 H7 H8.
  apply quat_eq; lra.
Qed.

(* multiplying every entry by a complex scalar commutes with the product *)
Definition mscale (z : R * R) (m : list (list (R * R))) : list (list (R * R)) :=
  map (map (cmul RNum z)) m.

Lemma qmat_neg q : qmat (qneg q) = mscale (-1, 0) (qmat q).
Proof.
  unfold mscale, qmat, qneg, cmul, qw, qx, qy, qz. cbn [map fst snd]. rnum_cbn.
  mat_eq.
Qed.

Lemma mscale_qmat_mul z1 z2 p q :
  mmul RNum (mscale z1 (qmat p)) (mscale z2 (qmat q)) = mscale (cmul RNum z1 z2) (qmat (qmul p q)).
Proof.
  destruct z1 as [u1 v1], z2 as [u2 v2].
  unfold mmul, transpose, mscale, qmat.
  cbn [hd length transpose_aux map tl].
  unfold vdot. cbn [combine fold_left fst snd].
  unfold cadd, cmul, czero, c0, n0, qmul, qw, qx, qy, qz. rnum_cbn.
  mat_eq.
Qed.

(* ------------------------------------------------------------------ *)
(* the A-B-A product *)

(* e_A x e_B = sigma e_C, C the unused axis *)
Definition sigma (ia ib : axis_id) : R := if is_sin_m_negative ia ib then 1 else -1.

(* the quaternion with scalar part w and components a, b, c along A, B and the unused axis *)
Definition qabc (ia ib : axis_id) (w a b c : R) : quat :=
  let v := fun j : axis_id =>
    if Z.eqb (axis_index j) (axis_index ia) then a
    else if Z.eqb (axis_index j) (axis_index ib) then b else c in
  (w, v AxX, v AxY, v AxZ).

Lemma qabc_axis ia ib w (n : axis3 R) :
  ia <> ib ->
  (w, ax_x n, ax_y n, ax_z n) =
  qabc ia ib w (axis_comp n ia) (axis_comp n ib) (axis_comp n (unused_axis ia ib)).
Proof.
  intros Hab. destruct ia, ib; try congruence; reflexivity.
Qed.

Lemma qrot_qabc ia ib (n : axis3 R) angle :
  ia <> ib ->
  qrot n angle =
  qabc ia ib (cos (angle / 2)) (sin (angle / 2) * axis_comp n ia) (sin (angle / 2) * axis_comp n ib)
       (sin (angle / 2) * axis_comp n (unused_axis ia ib)).
Proof.
  intros Hab. destruct ia, ib; try congruence; reflexivity.
Qed.

Theorem aba_product ia ib t1 t2 t3 :
  ia <> ib ->
  qmul (qrot (e_axis ia) t3) (qmul (qrot (e_axis ib) t2) (qrot (e_axis ia) t1)) =
  qabc ia ib
    (cos (t2 / 2) * cos ((t1 + t3) / 2))
    (cos (t2 / 2) * sin ((t1 + t3) / 2))
    (sin (t2 / 2) * cos ((t1 - t3) / 2))
    (- sigma ia ib * (sin (t2 / 2) * sin ((t1 - t3) / 2))).
Proof.
  intros Hab.
  replace ((t1 + t3) / 2) with (t1 / 2 + t3 / 2) by field.
  replace ((t1 - t3) / 2) with (t1 / 2 - t3 / 2) by field.
  rewrite cos_plus, sin_plus, cos_minus, sin_minus.
  destruct ia, ib; try congruence;
    unfold qabc, sigma, qrot, e_axis, ax_x, ax_y, ax_z;
    repeat match goal with
           | |- context [is_sin_m_negative ?a ?b] =>
               let v := eval vm_compute in (is_sin_m_negative a b) in
               change (is_sin_m_negative a b) with v
           | |- context [Z.eqb (axis_index ?a) (axis_index ?b)] =>
               let v := eval vm_compute in (Z.eqb (axis_index a) (axis_index b)) in
               change (Z.eqb (axis_index a) (axis_index b)) with v
           end;
    cbn [fst snd];
    apply quat_eq; unfold qmul, qw, qx, qy, qz; cbn [fst snd]; ring.
Qed.

Print Assumptions qmat_mul.
Print Assumptions aba_product.
