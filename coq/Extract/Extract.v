(* Extract.v — extraction of the executable model to OCaml.
   Only ExtrOcamlBasic and ExtrOcamlString are used (bool, option, list, prod,
   sumbool, unit, ascii -> char, string -> char list); Z, N, positive stay the
   extracted inductives.  No Extract Constant / Extract Inductive of our own. *)
Require Extraction.
Require Import ExtrOcamlBasic ExtrOcamlString.
From OSQ Require Import Num IR Graph Bits.
Extraction Language OCaml.
Extraction "model.ml"
  mkNum mkCircuit mkGinfo
  graph_edges graph_nodes
  reduced_ket expand_ket.
