(* Extract.v — extraction of the executable model to OCaml.
   Only ExtrOcamlBasic and ExtrOcamlString are used (bool, option, list, prod,
   sumbool, unit, ascii -> char, string -> char list); Z, N, positive stay the
   extracted inductives.  No Extract Constant / Extract Inductive of our own. *)
Require Extraction.
Require Import ExtrOcamlBasic ExtrOcamlString.
From OSQ Require Import Num IR Graph Bits Construct DefaultTable Matrix Sem Check ABA Merge McKay CNOTDec Decompose Remap Dec Writer QSExport ParserExpand Builder Reader.
Extraction Language OCaml.
Extraction "model.ml"
  mkNum mkCircuit mkGinfo
  graph_edges graph_nodes
  reduced_ket expand_ket
  normalize_angle mk_axis mk_axis_checked mk_bsr_checked mk_bsr mk_bsr_ax mk_ctrl mk_mat is_identity bsr_identity
  can1 get_matrix circuit_matrix gates_matrix kraus_gen
  default_gate aba_angles aba_gates mckay_gates cnot_gates compose_gates try_name merge decompose replace run_decomposer
  remap mapping_ok mapper_ok apply_mapping render_py8 fix_literal write3 export_v1 export_qs
  read3 read1 parse_program expand_program builder_run builder_step
  reindex_gate check_replacement compare_gates compare_gates_ord gate_eq equiv_up_to_phase.
